// Package vos replaces package os inside file_system_store.go (through the build
// overlay): every call is executed against the real filesystem and appended to an
// operation log, from which the crash/power-loss enumerator (E4) derives post-crash
// directory states; a fault plan can make any call fail (abort paths).
package vos

import (
	"errors"
	"fmt"
	"io"
	"io/fs"
	stdos "os"
	"sync"
)

type (
	FileMode = stdos.FileMode
	FileInfo = stdos.FileInfo
	DirEntry = stdos.DirEntry
)

const (
	O_RDONLY = stdos.O_RDONLY
	O_WRONLY = stdos.O_WRONLY
	O_RDWR   = stdos.O_RDWR
	O_APPEND = stdos.O_APPEND
	O_CREATE = stdos.O_CREATE
	O_EXCL   = stdos.O_EXCL
	O_SYNC   = stdos.O_SYNC
	O_TRUNC  = stdos.O_TRUNC
)

var (
	ErrNotExist = stdos.ErrNotExist
	ErrExist    = stdos.ErrExist
	ErrClosed           = stdos.ErrClosed
	ErrInvalid          = stdos.ErrInvalid
	ErrPermission       = stdos.ErrPermission
	ErrDeadlineExceeded = stdos.ErrDeadlineExceeded
)

func IsNotExist(err error) bool { return stdos.IsNotExist(err) }
func IsExist(err error) bool    { return stdos.IsExist(err) }

// Op is one logged filesystem operation.
type Op struct {
	Kind string // create | write | fsync | close | rename | remove | fsyncdir | mkdir | mark | open | readdir
	Path string
	To   string // rename target
	FD   int
	Data []byte // write payload
	Excl bool
	Err  bool   // the call returned an error (its effect did not happen)
	Note string // mark text
}

// Recorder collects the operations under one root directory; recorders are independent
// so parallel harness cases (each with its own directory) do not interfere.
type Recorder struct {
	cancelAt int
	cancelFn func()
	root     string
	log      []Op
	failAt   map[int]bool
	mutCount int
	failKind map[string]int
}

var (
	mu        sync.Mutex
	recorders = map[string]*Recorder{}
	nextFD    int
)

var ErrInjected = errors.New("injected filesystem fault")

// Yield, when set (controlled build), is called before every logged operation so that
// filesystem calls are scheduling points.
var Yield func(kind string)

// Record starts recording operations on paths under root.
func Record(root string) *Recorder {
	r := &Recorder{root: root, failKind: map[string]int{}}
	mu.Lock()
	recorders[root] = r
	mu.Unlock()
	return r
}

// Stop stops recording and returns the log.
func (r *Recorder) Stop() []Op {
	mu.Lock()
	defer mu.Unlock()
	delete(recorders, r.root)
	return r.log
}

// Log returns a copy of the log so far.
func (r *Recorder) Log() []Op {
	mu.Lock()
	defer mu.Unlock()
	return append([]Op(nil), r.log...)
}

// SetFaults installs the fault plan (indices into the sequence of mutating calls).
func (r *Recorder) SetFaults(at map[int]bool) { mu.Lock(); r.failAt = at; mu.Unlock() }

// FailNext makes the next n calls of kind fail.
func (r *Recorder) FailNext(kind string, n int) { mu.Lock(); r.failKind[kind] = n; mu.Unlock() }

// MutatingCalls returns how many mutating calls were seen.
func (r *Recorder) MutatingCalls() int { mu.Lock(); defer mu.Unlock(); return r.mutCount }

// Mark appends a harness marker (acknowledgements, API returns) to the log.
func (r *Recorder) Mark(note string) {
	mu.Lock()
	r.log = append(r.log, Op{Kind: "mark", Note: note})
	mu.Unlock()
}

func recorderFor(path string) *Recorder {
	for root, r := range recorders {
		if len(path) >= len(root) && path[:len(root)] == root {
			return r
		}
	}
	return nil
}

// pre decides whether a mutating call fails; it must be followed by rec.
func pre(kind, path string) bool {
	if Yield != nil {
		Yield("os." + kind)
	}
	mu.Lock()
	defer mu.Unlock()
	r := recorderFor(path)
	if r == nil {
		return false
	}
	if r.failKind[kind] > 0 {
		r.failKind[kind]--
		return true
	}
	r.mutCount++
	if r.cancelAt == r.mutCount && r.cancelFn != nil {
		// the harness's context is cancelled just before this call is made
		fn := r.cancelFn
		r.cancelFn = nil
		fn()
	}
	return r.failAt[r.mutCount]
}

// CancelAt arranges for fn (a context's cancel function) to be called just before the n-th
// mutating call.
func (r *Recorder) CancelAt(n int, fn func()) { mu.Lock(); r.cancelAt, r.cancelFn = n, fn; mu.Unlock() }

func rec(o Op) {
	mu.Lock()
	if r := recorderFor(o.Path); r != nil {
		r.log = append(r.log, o)
	}
	mu.Unlock()
}

// File wraps *os.File.
type File struct {
	f     *stdos.File
	fd    int
	path  string
	isDir bool
}

func newFile(f *stdos.File, path string) *File {
	mu.Lock()
	nextFD++
	fd := nextFD
	mu.Unlock()
	isDir := false
	if st, err := f.Stat(); err == nil && st.IsDir() {
		isDir = true
	}
	return &File{f: f, fd: fd, path: path, isDir: isDir}
}

func Stat(name string) (FileInfo, error)  { return stdos.Stat(name) }
func Lstat(name string) (FileInfo, error) { return stdos.Lstat(name) }

func MkdirAll(path string, perm FileMode) error {
	err := stdos.MkdirAll(path, perm)
	rec(Op{Kind: "mkdir", Path: path, Err: err != nil})
	return err
}

func Mkdir(path string, perm FileMode) error {
	err := stdos.Mkdir(path, perm)
	rec(Op{Kind: "mkdir", Path: path, Err: err != nil})
	return err
}

func Open(name string) (*File, error) {
	if Yield != nil {
		Yield("os.open")
	}
	f, err := stdos.Open(name)
	if err != nil {
		return nil, err
	}
	return newFile(f, name), nil
}

func Create(name string) (*File, error) {
	return OpenFile(name, O_RDWR|O_CREATE|O_TRUNC, 0o666)
}

func OpenFile(name string, flag int, perm FileMode) (*File, error) {
	if flag&O_CREATE != 0 {
		if pre("create", name) {
			rec(Op{Kind: "create", Path: name, Excl: flag&O_EXCL != 0, Err: true})
			return nil, fmt.Errorf("open %s: %w", name, ErrInjected)
		}
		_, statErr := stdos.Lstat(name)
		f, err := stdos.OpenFile(name, flag, perm)
		if err != nil {
			rec(Op{Kind: "create", Path: name, Excl: flag&O_EXCL != 0, Err: true})
			return nil, err
		}
		vf := newFile(f, name)
		if statErr != nil { // the file did not exist: a directory entry was created
			rec(Op{Kind: "create", Path: name, FD: vf.fd, Excl: flag&O_EXCL != 0})
		} else {
			rec(Op{Kind: "open", Path: name, FD: vf.fd})
		}
		return vf, nil
	}
	f, err := stdos.OpenFile(name, flag, perm)
	if err != nil {
		return nil, err
	}
	return newFile(f, name), nil
}

func Remove(name string) error {
	if pre("remove", name) {
		rec(Op{Kind: "remove", Path: name, Err: true})
		return fmt.Errorf("remove %s: %w", name, ErrInjected)
	}
	err := stdos.Remove(name)
	rec(Op{Kind: "remove", Path: name, Err: err != nil})
	return err
}

func RemoveAll(name string) error { return stdos.RemoveAll(name) }

func Rename(a, b string) error {
	if pre("rename", a) {
		rec(Op{Kind: "rename", Path: a, To: b, Err: true})
		return fmt.Errorf("rename %s %s: %w", a, b, ErrInjected)
	}
	err := stdos.Rename(a, b)
	rec(Op{Kind: "rename", Path: a, To: b, Err: err != nil})
	return err
}

func ReadDir(name string) ([]DirEntry, error) {
	if Yield != nil {
		Yield("os.readdir")
	}
	return stdos.ReadDir(name)
}
func ReadFile(name string) ([]byte, error)    { return stdos.ReadFile(name) }
func WriteFile(name string, data []byte, perm FileMode) error {
	f, err := OpenFile(name, O_WRONLY|O_CREATE|O_TRUNC, perm)
	if err != nil {
		return err
	}
	_, err = f.Write(data)
	if cerr := f.Close(); err == nil {
		err = cerr
	}
	return err
}

func (f *File) Name() string                          { return f.f.Name() }
func (f *File) Stat() (FileInfo, error)               { return f.f.Stat() }
func (f *File) Read(p []byte) (int, error)            { return f.f.Read(p) }
func (f *File) ReadAt(p []byte, o int64) (int, error) { return f.f.ReadAt(p, o) }
func (f *File) Seek(o int64, w int) (int64, error)    { return f.f.Seek(o, w) }
func (f *File) ReadDir(n int) ([]DirEntry, error)     { return f.f.ReadDir(n) }

func (f *File) Write(p []byte) (int, error) {
	if pre("write", f.path) {
		rec(Op{Kind: "write", Path: f.path, FD: f.fd, Err: true})
		return 0, fmt.Errorf("write %s: %w", f.path, ErrInjected)
	}
	n, err := f.f.Write(p)
	rec(Op{Kind: "write", Path: f.path, FD: f.fd, Data: append([]byte(nil), p[:n]...), Err: err != nil})
	return n, err
}

func (f *File) Sync() error {
	kind := "fsync"
	if f.isDir {
		kind = "fsyncdir"
	}
	if pre(kind, f.path) {
		rec(Op{Kind: kind, Path: f.path, FD: f.fd, Err: true})
		return fmt.Errorf("sync %s: %w", f.path, ErrInjected)
	}
	err := f.f.Sync()
	rec(Op{Kind: kind, Path: f.path, FD: f.fd, Err: err != nil})
	return err
}

func (f *File) Close() error {
	err := f.f.Close()
	if !f.isDir {
		rec(Op{Kind: "close", Path: f.path, FD: f.fd, Err: err != nil})
	}
	return err
}

var _ io.ReadSeekCloser = (*File)(nil)
var _ fs.FileInfo = FileInfo(nil)

// Pass-throughs used by harness code that is instrumented together with the package.
func MkdirTemp(dir, pattern string) (string, error) { return stdos.MkdirTemp(dir, pattern) }
func Getenv(k string) string                         { return stdos.Getenv(k) }
func TempDir() string                                { return stdos.TempDir() }

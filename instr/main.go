// Command instr is the source-to-source instrumenter of engine E1. It rewrites the
// concurrency and environment primitives of the given package directories into their
// scheduler-aware equivalents from verif/vrt and emits a `go build -overlay` file, so
// the originals (in particular /repo) are never touched.
//
//	instr -out DIR -overlay FILE [-tags a,b] dir[=importpath] ...
package main

import (
	"bytes"
	"encoding/json"
	"flag"
	"fmt"
	"go/ast"
	"go/build"
	"go/constant"
	"go/importer"
	"go/parser"
	"go/printer"
	"go/token"
	"go/types"
	"os"
	"path/filepath"
	"sort"
	"strconv"
	"strings"

	"golang.org/x/tools/go/ast/astutil"
)

var shimImports = map[string]string{
	"sync":         "verif/vrt/sync",
	"sync/atomic":  "verif/vrt/sync/atomic",
	"context":      "verif/vrt/context",
	"time":         "verif/vrt/time",
	"math/rand/v2": "verif/vrt/rand",
}

var (
	outDir   = flag.String("out", "", "directory for rewritten files")
	overlay  = flag.String("overlay", "", "overlay JSON to write")
	tagsFlag = flag.String("tags", "verif,verif_sched", "build tags")
	shimOS   = flag.Bool("os", false, "also replace package os by the logging shim")
	osOnly   = flag.String("osonly", "", "only replace the os import (by verif/vos) in the named files (comma separated base names); no other rewriting")
	addFiles = flag.String("add", "", "extra files to add to the first package directory through the overlay (comma separated paths)")
	verbose  = flag.Bool("v", false, "verbose")
)

type unit struct {
	dir, path string
	as        string // directory the overlay entries are keyed by (default: dir)
}

func main() {
	flag.Parse()
	if *outDir == "" || *overlay == "" || flag.NArg() == 0 {
		fmt.Fprintln(os.Stderr, "usage: instr -out DIR -overlay FILE dir[=importpath] ...")
		os.Exit(2)
	}
	if *shimOS {
		shimImports["os"] = "verif/vos"
	}
	var units []unit
	instrumented := map[string]bool{}
	for _, a := range flag.Args() {
		u := unit{dir: a}
		if parts := strings.Split(a, "="); len(parts) >= 2 {
			u.dir, u.path = parts[0], parts[1]
			if len(parts) >= 3 {
				u.as = parts[2]
			}
		}
		units = append(units, u)
		if u.path != "" {
			instrumented[u.path] = true
		}
	}
	replace := map[string]string{}
	var problems []string
	if *osOnly != "" {
		u := units[0]
		keyDir := u.dir
		if u.as != "" {
			keyDir = u.as
		}
		for _, name := range strings.Split(*osOnly, ",") {
			src, err := os.ReadFile(filepath.Join(u.dir, name))
			if err != nil {
				fmt.Fprintln(os.Stderr, "instr:", err)
				os.Exit(1)
			}
			out := strings.Replace(string(src), "\t\"os\"\n", "\tos \"verif/vos\"\n", 1)
			if out == string(src) {
				problems = append(problems, name+": no plain os import found; filesystem calls are not logged")
			}
			os.MkdirAll(filepath.Join(*outDir, "osonly"), 0o755)
			dst := filepath.Join(*outDir, "osonly", name)
			os.WriteFile(dst, []byte(out), 0o644)
			abs, _ := filepath.Abs(filepath.Join(keyDir, name))
			replace[abs] = dst
		}
		if u.as != "" && u.as != u.dir {
			// building another tree in place of the overlaid one: map every other source file
			only := map[string]bool{}
			for _, n := range strings.Split(*osOnly, ",") {
				only[n] = true
			}
			have := map[string]bool{}
			if ents, err := os.ReadDir(u.dir); err == nil {
				for _, e := range ents {
					n := e.Name()
					if e.IsDir() || !strings.HasSuffix(n, ".go") || strings.HasSuffix(n, "_test.go") {
						continue
					}
					have[n] = true
					if !only[n] {
						abs, _ := filepath.Abs(filepath.Join(u.as, n))
						src, _ := filepath.Abs(filepath.Join(u.dir, n))
						replace[abs] = src
					}
				}
			}
			if ents, err := os.ReadDir(u.as); err == nil {
				for _, e := range ents {
					n := e.Name()
					if !e.IsDir() && strings.HasSuffix(n, ".go") && !strings.HasSuffix(n, "_test.go") && !have[n] {
						abs, _ := filepath.Abs(filepath.Join(u.as, n))
						replace[abs] = ""
					}
				}
			}
		}
		units = nil
		addOverlayFiles(flag.Args()[0], replace)
	}
	for _, u := range units {
		ps, err := instrumentDir(u, instrumented, replace)
		if err != nil {
			fmt.Fprintf(os.Stderr, "instr: %s: %v\n", u.dir, err)
			os.Exit(1)
		}
		problems = append(problems, ps...)
	}
	if *osOnly == "" && *addFiles != "" {
		addOverlayFiles(flag.Args()[0], replace)
	}
	b, _ := json.MarshalIndent(map[string]any{"Replace": replace}, "", " ")
	if err := os.WriteFile(*overlay, b, 0o644); err != nil {
		fmt.Fprintln(os.Stderr, err)
		os.Exit(1)
	}
	for _, p := range problems {
		fmt.Fprintln(os.Stderr, "instr: note:", p)
	}
}

// addOverlayFiles maps the -add files into the (overlay key) directory of the first unit.
func addOverlayFiles(arg string, replace map[string]string) {
	if *addFiles == "" {
		return
	}
	parts := strings.Split(arg, "=")
	keyDir := parts[0]
	if len(parts) >= 3 {
		keyDir = parts[2]
	}
	for _, f := range strings.Split(*addFiles, ",") {
		abs, _ := filepath.Abs(filepath.Join(keyDir, filepath.Base(f)))
		src, _ := filepath.Abs(f)
		replace[abs] = src
	}
}

type rewriter struct {
	fset    *token.FileSet
	info    *types.Info
	inst    map[string]bool
	usedVrt bool
	n       int
	notes   []string

	commaOk   map[*ast.UnaryExpr]bool
	rangeChan map[*ast.RangeStmt]bool
	rangeMap  map[*ast.RangeStmt]bool
	lenCap    map[*ast.CallExpr]bool
	ctxArgs   map[*ast.CallExpr][]int
	constArg  map[ast.Expr]bool

	genChanType map[ast.Expr]ast.Expr // *vrt.Chan[T] -> T
	genRecv     map[ast.Expr]ast.Expr // x.Recv()/Recv2() -> x
	genSend     map[ast.Stmt][2]ast.Expr
	moveLabel   map[*ast.BlockStmt]int // block -> index of the statement that takes the label
}

func instrumentDir(u unit, inst map[string]bool, replace map[string]string) ([]string, error) {
	ctx := build.Default
	ctx.BuildTags = strings.Split(*tagsFlag, ",")
	ents, err := os.ReadDir(u.dir)
	if err != nil {
		return nil, err
	}
	fset := token.NewFileSet()
	var files []*ast.File
	var names []string
	for _, e := range ents {
		n := e.Name()
		if e.IsDir() || !strings.HasSuffix(n, ".go") || strings.HasSuffix(n, "_test.go") {
			continue
		}
		if ok, err := ctx.MatchFile(u.dir, n); err != nil || !ok {
			continue
		}
		f, err := parser.ParseFile(fset, filepath.Join(u.dir, n), nil, parser.ParseComments)
		if err != nil {
			return nil, err
		}
		files = append(files, f)
		names = append(names, n)
	}
	if len(files) == 0 {
		return nil, fmt.Errorf("no Go files")
	}
	info := &types.Info{
		Types: map[ast.Expr]types.TypeAndValue{},
		Uses:  map[*ast.Ident]types.Object{},
		Defs:  map[*ast.Ident]types.Object{},
	}
	var terrs []string
	conf := types.Config{
		Importer: importer.ForCompiler(fset, "source", nil).(types.ImporterFrom),
		Error:    func(err error) { terrs = append(terrs, err.Error()) },
	}
	wd, _ := os.Getwd()
	os.Chdir(u.dir)
	conf.Check(u.path, fset, files, info)
	os.Chdir(wd)
	var notes []string
	if len(terrs) > 0 {
		notes = append(notes, fmt.Sprintf("%s: %d type errors (first: %s); type-dependent rewrites may be incomplete", u.dir, len(terrs), terrs[0]))
	}
	base := filepath.Base(u.dir)
	dst := filepath.Join(*outDir, base)
	if err := os.MkdirAll(dst, 0o755); err != nil {
		return nil, err
	}
	for i, f := range files {
		rw := &rewriter{fset: fset, info: info, inst: inst}
		src, err := rw.file(f)
		if err != nil {
			return nil, fmt.Errorf("%s: %v", names[i], err)
		}
		notes = append(notes, rw.notes...)
		out := filepath.Join(dst, names[i])
		if err := os.WriteFile(out, src, 0o644); err != nil {
			return nil, err
		}
		keyDir := u.dir
		if u.as != "" {
			keyDir = u.as
		}
		abs, _ := filepath.Abs(filepath.Join(keyDir, names[i]))
		replace[abs] = out
	}
	if u.as != "" {
		// files present in the overlaid directory but absent from the source are deleted
		have := map[string]bool{}
		for _, n := range names {
			have[n] = true
		}
		if ents, err := os.ReadDir(u.as); err == nil {
			for _, e := range ents {
				n := e.Name()
				if !e.IsDir() && strings.HasSuffix(n, ".go") && !strings.HasSuffix(n, "_test.go") && !have[n] {
					abs, _ := filepath.Abs(filepath.Join(u.as, n))
					replace[abs] = ""
				}
			}
		}
	}
	return notes, nil
}

func (r *rewriter) note(n ast.Node, format string, a ...any) {
	r.notes = append(r.notes, fmt.Sprintf("%s: %s", r.fset.Position(n.Pos()), fmt.Sprintf(format, a...)))
}

func (r *rewriter) isChan(e ast.Expr) bool {
	if t := r.info.TypeOf(e); t != nil {
		_, ok := t.Underlying().(*types.Chan)
		return ok
	}
	return false
}

func vrtSel(name string) ast.Expr {
	return &ast.SelectorExpr{X: ast.NewIdent("vrt"), Sel: ast.NewIdent(name)}
}

func call(fun ast.Expr, args ...ast.Expr) *ast.CallExpr { return &ast.CallExpr{Fun: fun, Args: args} }

func method(x ast.Expr, name string, args ...ast.Expr) *ast.CallExpr {
	return call(&ast.SelectorExpr{X: x, Sel: ast.NewIdent(name)}, args...)
}

func (r *rewriter) tmp(prefix string) string {
	r.n++
	return fmt.Sprintf("_v%s%d", prefix, r.n)
}

func isContextType(t types.Type) bool {
	n, ok := t.(*types.Named)
	if !ok {
		return false
	}
	o := n.Obj()
	return o.Pkg() != nil && o.Pkg().Path() == "context" && o.Name() == "Context"
}

func orderedKey(t types.Type) bool {
	b, ok := t.Underlying().(*types.Basic)
	if !ok {
		return false
	}
	return b.Info()&(types.IsInteger|types.IsFloat|types.IsString) != 0
}

func hasCall(e ast.Expr) bool {
	found := false
	ast.Inspect(e, func(n ast.Node) bool {
		if _, ok := n.(*ast.CallExpr); ok {
			found = true
		}
		return !found
	})
	return found
}

// analyse records every type-dependent decision on the original tree.
func (r *rewriter) analyse(f *ast.File) {
	r.commaOk = map[*ast.UnaryExpr]bool{}
	r.rangeChan = map[*ast.RangeStmt]bool{}
	r.rangeMap = map[*ast.RangeStmt]bool{}
	r.lenCap = map[*ast.CallExpr]bool{}
	r.ctxArgs = map[*ast.CallExpr][]int{}
	r.constArg = map[ast.Expr]bool{}
	ast.Inspect(f, func(n ast.Node) bool {
		switch x := n.(type) {
		case *ast.AssignStmt:
			if len(x.Lhs) == 2 && len(x.Rhs) == 1 {
				if u, ok := x.Rhs[0].(*ast.UnaryExpr); ok && u.Op == token.ARROW {
					r.commaOk[u] = true
				}
			}
		case *ast.ValueSpec:
			if len(x.Names) == 2 && len(x.Values) == 1 {
				if u, ok := x.Values[0].(*ast.UnaryExpr); ok && u.Op == token.ARROW {
					r.commaOk[u] = true
				}
			}
		case *ast.RangeStmt:
			t := r.info.TypeOf(x.X)
			if t == nil {
				break
			}
			switch ut := t.Underlying().(type) {
			case *types.Chan:
				r.rangeChan[x] = true
			case *types.Map:
				if orderedKey(ut.Key()) {
					r.rangeMap[x] = true
				} else {
					r.note(x, "map range with unordered key type %s left in runtime order", ut.Key())
				}
			}
		case *ast.GoStmt:
			for _, a := range x.Call.Args {
				if tv, ok := r.info.Types[a]; ok && tv.Value != nil {
					r.constArg[a] = true
				} else if _, ok := a.(*ast.BasicLit); ok {
					r.constArg[a] = true
				} else if id, ok := a.(*ast.Ident); ok && (id.Name == "nil" || id.Name == "true" || id.Name == "false") {
					r.constArg[a] = true
				}
			}
		case *ast.CallExpr:
			if id, ok := x.Fun.(*ast.Ident); ok && (id.Name == "len" || id.Name == "cap") && len(x.Args) == 1 {
				if _, isBuiltin := r.info.Uses[id].(*types.Builtin); isBuiltin && r.isChan(x.Args[0]) {
					r.lenCap[x] = true
				}
			}
			// context passed to a package that is not instrumented
			sig, _ := r.info.TypeOf(x.Fun).(*types.Signature)
			if sig == nil {
				break
			}
			var pkg *types.Package
			switch fn := x.Fun.(type) {
			case *ast.SelectorExpr:
				if o := r.info.Uses[fn.Sel]; o != nil {
					pkg = o.Pkg()
				}
			case *ast.Ident:
				if o := r.info.Uses[fn]; o != nil {
					pkg = o.Pkg()
				}
			}
			if pkg == nil || r.inst[pkg.Path()] || shimImports[pkg.Path()] != "" || strings.HasPrefix(pkg.Path(), "verif/") {
				break
			}
			// methods of types declared in this (instrumented) package have pkg == current package
			for i := 0; i < sig.Params().Len() && i < len(x.Args); i++ {
				if isContextType(sig.Params().At(i).Type()) {
					r.ctxArgs[x] = append(r.ctxArgs[x], i)
				}
			}
		}
		return true
	})
}

func (r *rewriter) file(f *ast.File) ([]byte, error) {
	r.genChanType = map[ast.Expr]ast.Expr{}
	r.genRecv = map[ast.Expr]ast.Expr{}
	r.genSend = map[ast.Stmt][2]ast.Expr{}
	r.moveLabel = map[*ast.BlockStmt]int{}
	r.analyse(f)

	// keep build constraints, drop every other comment (positions are not maintained)
	var header []string
	for _, cg := range f.Comments {
		if cg.End() >= f.Package {
			break
		}
		for _, c := range cg.List {
			if strings.HasPrefix(c.Text, "//go:build") {
				header = append(header, c.Text)
			}
		}
	}
	f.Comments = nil
	f.Doc = nil

	var ferr error
	astutil.Apply(f, func(c *astutil.Cursor) bool {
		// strip doc comments so the printer does not misplace them
		switch x := c.Node().(type) {
		case *ast.FuncDecl:
			x.Doc = nil
		case *ast.GenDecl:
			x.Doc = nil
		case *ast.Field:
			x.Doc, x.Comment = nil, nil
		case *ast.ValueSpec:
			x.Doc, x.Comment = nil, nil
		case *ast.TypeSpec:
			x.Doc, x.Comment = nil, nil
		case *ast.ImportSpec:
			x.Doc, x.Comment = nil, nil
		}
		return true
	}, func(c *astutil.Cursor) bool {
		if ferr != nil {
			return false
		}
		switch x := c.Node().(type) {
		case *ast.ImportSpec:
			p, _ := strconv.Unquote(x.Path.Value)
			if np, ok := shimImports[p]; ok {
				x.Path = &ast.BasicLit{Kind: token.STRING, Value: strconv.Quote(np)}
				x.EndPos = 0
				if x.Name == nil && filepath.Base(np) != filepath.Base(strings.TrimSuffix(p, "/v2")) {
					x.Name = ast.NewIdent(filepath.Base(strings.TrimSuffix(p, "/v2")))
				}
			}
		case *ast.ChanType:
			r.usedVrt = true
			nt := &ast.StarExpr{X: &ast.IndexExpr{X: vrtSel("Chan"), Index: x.Value}}
			r.genChanType[nt] = x.Value
			c.Replace(nt)
		case *ast.UnaryExpr:
			if x.Op == token.ARROW {
				name := "Recv"
				if r.commaOk[x] {
					name = "Recv2"
				}
				nc := method(x.X, name)
				r.genRecv[nc] = x.X
				c.Replace(nc)
			}
		case *ast.SendStmt:
			ns := &ast.ExprStmt{X: method(x.Chan, "Send", x.Value)}
			r.genSend[ns] = [2]ast.Expr{x.Chan, x.Value}
			c.Replace(ns)
		case *ast.CallExpr:
			r.callExpr(c, x)
		case *ast.SelectStmt:
			c.Replace(r.selectStmt(x))
		case *ast.GoStmt:
			c.Replace(r.goStmt(x))
		case *ast.RangeStmt:
			if r.rangeChan[x] {
				c.Replace(r.rangeOverChan(x))
			} else if r.rangeMap[x] {
				c.Replace(r.rangeOverMap(x))
			}
		case *ast.LabeledStmt:
			if b, ok := x.Stmt.(*ast.BlockStmt); ok {
				if idx, ok := r.moveLabel[b]; ok {
					b.List[idx] = &ast.LabeledStmt{Label: x.Label, Stmt: b.List[idx]}
					c.Replace(b)
				}
			}
		}
		return true
	})
	if ferr != nil {
		return nil, ferr
	}
	if r.usedVrt {
		astutil.AddNamedImport(r.fset, f, "vrt", "verif/vrt")
	}
	// AddNamedImport may leave stale positions; clear import positions for printing.
	var buf bytes.Buffer
	for _, h := range header {
		buf.WriteString(h + "\n\n")
	}
	cfg := printer.Config{Mode: printer.UseSpaces | printer.TabIndent, Tabwidth: 8}
	if err := cfg.Fprint(&buf, token.NewFileSet(), stripPos(f)); err != nil {
		return nil, err
	}
	return buf.Bytes(), nil
}

// stripPos returns f unchanged; printing with a fresh FileSet ignores stale positions
// except for relative line breaks, which go/printer tolerates.
func stripPos(f *ast.File) *ast.File { return f }

func (r *rewriter) callExpr(c *astutil.Cursor, x *ast.CallExpr) {
	if id, ok := x.Fun.(*ast.Ident); ok {
		switch {
		case id.Name == "make" && len(x.Args) >= 1:
			if elem, ok := r.genChanType[x.Args[0]]; ok {
				r.usedVrt = true
				c.Replace(call(&ast.IndexExpr{X: vrtSel("MakeChan"), Index: elem}, x.Args[1:]...))
				return
			}
		case id.Name == "close" && len(x.Args) == 1:
			if o, isB := r.info.Uses[id].(*types.Builtin); isB || o == nil {
				c.Replace(method(x.Args[0], "Close"))
				return
			}
		case (id.Name == "len" || id.Name == "cap") && r.lenCap[x]:
			name := "Len"
			if id.Name == "cap" {
				name = "Cap"
			}
			c.Replace(method(x.Args[0], name))
			return
		}
	}
	if idxs := r.ctxArgs[x]; len(idxs) > 0 {
		for _, i := range idxs {
			x.Args[i] = call(&ast.SelectorExpr{X: ast.NewIdent("context"), Sel: ast.NewIdent("ToStd")}, x.Args[i])
		}
	}
}

func (r *rewriter) selectStmt(x *ast.SelectStmt) ast.Stmt {
	r.usedVrt = true
	id := r.tmp("sel")
	var pre []ast.Stmt
	var caseArgs []ast.Expr
	hasDefault := false
	sw := &ast.SwitchStmt{Body: &ast.BlockStmt{}}
	k := 0
	for _, cl := range x.Body.List {
		cc := cl.(*ast.CommClause)
		if cc.Comm == nil {
			hasDefault = true
			sw.Body.List = append(sw.Body.List, &ast.CaseClause{List: nil, Body: cc.Body})
			continue
		}
		name := fmt.Sprintf("%s_%d", id, k)
		var mk ast.Expr
		var bodyPre []ast.Stmt
		switch s := cc.Comm.(type) {
		case *ast.ExprStmt:
			if sv, ok := r.genSend[s]; ok {
				mk = call(vrtSel("SendCase"), sv[0], sv[1])
			} else if ch, ok := r.genRecv[s.X]; ok {
				mk = call(vrtSel("RecvCase"), ch)
			}
		case *ast.AssignStmt:
			if ch, ok := r.genRecv[s.Rhs[0]]; ok {
				mk = call(vrtSel("RecvCase"), ch)
				fields := []string{"V", "OK"}
				for i, lhs := range s.Lhs {
					if lid, ok := lhs.(*ast.Ident); ok && lid.Name == "_" {
						continue
					}
					bodyPre = append(bodyPre, &ast.AssignStmt{Lhs: []ast.Expr{lhs}, Tok: s.Tok,
						Rhs: []ast.Expr{&ast.SelectorExpr{X: ast.NewIdent(name), Sel: ast.NewIdent(fields[i])}}})
				}
			}
		}
		if mk == nil {
			r.note(cc, "unsupported select communication clause")
			mk = call(vrtSel("RecvCase"), ast.NewIdent("nil"))
		}
		pre = append(pre, &ast.AssignStmt{Lhs: []ast.Expr{ast.NewIdent(name)}, Tok: token.DEFINE, Rhs: []ast.Expr{mk}})
		caseArgs = append(caseArgs, ast.NewIdent(name))
		sw.Body.List = append(sw.Body.List, &ast.CaseClause{
			List: []ast.Expr{&ast.BasicLit{Kind: token.INT, Value: strconv.Itoa(k)}},
			Body: append(bodyPre, cc.Body...),
		})
		k++
	}
	hd := "false"
	if hasDefault {
		hd = "true"
	} else {
		// keeps the statement terminating when every case is (a switch needs a default for that)
		sw.Body.List = append(sw.Body.List, &ast.CaseClause{List: nil, Body: []ast.Stmt{
			&ast.ExprStmt{X: call(ast.NewIdent("panic"), &ast.BasicLit{Kind: token.STRING, Value: `"vrt: select returned no case"`})}}})
	}
	sw.Tag = call(vrtSel("Select"), append([]ast.Expr{ast.NewIdent(hd)}, caseArgs...)...)
	blk := &ast.BlockStmt{List: append(pre, sw)}
	r.moveLabel[blk] = len(blk.List) - 1
	return blk
}

func (r *rewriter) goStmt(x *ast.GoStmt) ast.Stmt {
	r.usedVrt = true
	if fl, ok := x.Call.Fun.(*ast.FuncLit); ok && len(x.Call.Args) == 0 {
		return &ast.ExprStmt{X: call(vrtSel("Go"), fl)}
	}
	var pre []ast.Stmt
	args := make([]ast.Expr, len(x.Call.Args))
	for i, a := range x.Call.Args {
		if r.constArg[a] {
			args[i] = a
			continue
		}
		n := r.tmp("ga")
		pre = append(pre, &ast.AssignStmt{Lhs: []ast.Expr{ast.NewIdent(n)}, Tok: token.DEFINE, Rhs: []ast.Expr{a}})
		args[i] = ast.NewIdent(n)
	}
	fun := x.Call.Fun
	if _, isLit := fun.(*ast.FuncLit); !isLit {
		// evaluate the function value (incl. a method value's receiver) now
		n := r.tmp("gf")
		pre = append(pre, &ast.AssignStmt{Lhs: []ast.Expr{ast.NewIdent(n)}, Tok: token.DEFINE, Rhs: []ast.Expr{fun}})
		fun = ast.NewIdent(n)
	}
	inner := &ast.CallExpr{Fun: fun, Args: args, Ellipsis: x.Call.Ellipsis}
	lit := &ast.FuncLit{Type: &ast.FuncType{Params: &ast.FieldList{}}, Body: &ast.BlockStmt{List: []ast.Stmt{&ast.ExprStmt{X: inner}}}}
	goCall := &ast.ExprStmt{X: call(vrtSel("Go"), lit)}
	return &ast.BlockStmt{List: append(pre, goCall)}
}

func (r *rewriter) rangeOverChan(x *ast.RangeStmt) ast.Stmt {
	ok := r.tmp("ok")
	var lhs ast.Expr = ast.NewIdent("_")
	tok := token.DEFINE
	var decl []ast.Stmt
	if x.Key != nil {
		lhs = x.Key
		if x.Tok == token.ASSIGN {
			tok = token.ASSIGN
			decl = append(decl, &ast.DeclStmt{Decl: &ast.GenDecl{Tok: token.VAR, Specs: []ast.Spec{
				&ast.ValueSpec{Names: []*ast.Ident{ast.NewIdent(ok)}, Type: ast.NewIdent("bool")}}}})
		}
	}
	recv := &ast.AssignStmt{Lhs: []ast.Expr{lhs, ast.NewIdent(ok)}, Tok: tok, Rhs: []ast.Expr{method(x.X, "Recv2")}}
	brk := &ast.IfStmt{Cond: &ast.UnaryExpr{Op: token.NOT, X: ast.NewIdent(ok)}, Body: &ast.BlockStmt{List: []ast.Stmt{&ast.BranchStmt{Tok: token.BREAK}}}}
	body := append(append(decl, recv, brk), x.Body.List...)
	return &ast.ForStmt{Body: &ast.BlockStmt{List: body}}
}

func (r *rewriter) rangeOverMap(x *ast.RangeStmt) ast.Stmt {
	r.usedVrt = true
	var pre []ast.Stmt
	m := x.X
	if hasCall(m) {
		n := r.tmp("m")
		pre = append(pre, &ast.AssignStmt{Lhs: []ast.Expr{ast.NewIdent(n)}, Tok: token.DEFINE, Rhs: []ast.Expr{m}})
		m = ast.NewIdent(n)
	}
	blank := func(e ast.Expr) bool {
		if e == nil {
			return true
		}
		id, ok := e.(*ast.Ident)
		return ok && id.Name == "_"
	}
	okName := r.tmp("ok")
	var keyIdent ast.Expr
	var body []ast.Stmt
	if x.Tok == token.DEFINE && !blank(x.Key) {
		keyIdent = x.Key
	} else {
		keyIdent = ast.NewIdent(r.tmp("k"))
		if !blank(x.Key) { // assignment form
			body = append(body, &ast.AssignStmt{Lhs: []ast.Expr{x.Key}, Tok: token.ASSIGN, Rhs: []ast.Expr{keyIdent}})
		}
	}
	idx := &ast.IndexExpr{X: m, Index: keyIdent}
	cont := &ast.IfStmt{Cond: &ast.UnaryExpr{Op: token.NOT, X: ast.NewIdent(okName)}, Body: &ast.BlockStmt{List: []ast.Stmt{&ast.BranchStmt{Tok: token.CONTINUE}}}}
	switch {
	case blank(x.Value):
		body = append(body, &ast.AssignStmt{Lhs: []ast.Expr{ast.NewIdent("_"), ast.NewIdent(okName)}, Tok: token.DEFINE, Rhs: []ast.Expr{idx}}, cont)
	case x.Tok == token.DEFINE:
		body = append(body, &ast.AssignStmt{Lhs: []ast.Expr{x.Value, ast.NewIdent(okName)}, Tok: token.DEFINE, Rhs: []ast.Expr{idx}}, cont)
	default:
		tv := r.tmp("v")
		body = append(body,
			&ast.AssignStmt{Lhs: []ast.Expr{ast.NewIdent(tv), ast.NewIdent(okName)}, Tok: token.DEFINE, Rhs: []ast.Expr{idx}}, cont,
			&ast.AssignStmt{Lhs: []ast.Expr{x.Value}, Tok: token.ASSIGN, Rhs: []ast.Expr{ast.NewIdent(tv)}})
	}
	loop := &ast.RangeStmt{Key: ast.NewIdent("_"), Value: keyIdent, Tok: token.DEFINE,
		X: call(vrtSel("SortedKeys"), m), Body: &ast.BlockStmt{List: append(body, x.Body.List...)}}
	if len(pre) == 0 {
		return loop
	}
	blk := &ast.BlockStmt{List: append(pre, loop)}
	r.moveLabel[blk] = len(blk.List) - 1
	return blk
}

var _ = constant.MakeBool
var _ = sort.Strings

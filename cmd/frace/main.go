// Command frace is the auxiliary data-race pass: it runs the scenario bodies of verif/scen
// free-running (real goroutines, real sync, no controlled scheduler) so that a binary built
// with -race can report unsynchronised accesses inside the engine — the one thing the
// cooperative scheduler cannot see (its hand-offs are happens-before edges). It is sampling
// and decides nothing; its only output of interest is the race detector's report.
package main

import (
	"flag"
	"fmt"
	"os"
	"sort"
	"time"

	"verif/scen"
	"verif/vapi"
)

func main() {
	iters := flag.Int("n", 15, "runs per scenario")
	tier := flag.String("tier", "quick", "scenario tier")
	flag.Parse()
	var props []string
	for p := range scen.Registry {
		props = append(props, p)
	}
	sort.Strings(props)
	ran, timedOut := 0, 0
	for _, p := range props {
		for _, s := range scen.Registry[p](*tier) {
			if s.Setup != nil {
				s.Setup()
			}
			for i := 0; i < *iters; i++ {
				vapi.Reset()
				done := make(chan struct{})
				go func() { defer close(done); defer func() { recover() }(); s.Root() }()
				select {
				case <-done:
					ran++
				case <-time.After(3 * time.Second):
					timedOut++ // scenarios whose verdict is a deadlock under the explorer just hang here
					i = *iters
				}
			}
		}
	}
	fmt.Fprintf(os.Stderr, "frace: %d scenario runs completed, %d abandoned after 3s\n", ran, timedOut)
}

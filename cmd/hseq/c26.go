package main

import (
	"strings"
	"bytes"
	"context"
	"fmt"
	"math"

	"github.com/bits-and-blooms/bloom/v3"
	bs "github.com/danthegoodman1/bloomsearch"

	"verif/refmodel"
)

// C26 — filters meet the configured false-positive rate at any volume.
//
// Exact part: the stored filter's (m, k) equal the textbook optimum for (measured
// distinct count, configured rate), and the measured count equals the reference's
// distinct count. Measured part: a fixed, seed-independent universe of absent entries;
// the observed rate must stay below 3*rate + 5 sigma (binomial).

const c26Universe = 200000

func c26Rows(n int) []map[string]any {
	rows := make([]map[string]any, 0, n)
	for i := 0; i < n; i++ {
		rows = append(rows, map[string]any{fmt.Sprintf("f%d", i): fmt.Sprintf("t%d", i)})
	}
	return rows
}

func c26Check(label string, f *bloom.BloomFilter, entries map[string]bool, rate float64, kind string, res *CaseResult) {
	distinct := len(entries)
	res.Evals++
	if f == nil {
		res.Findings = append(res.Findings, fnd("c26-no-filter", "C26 %s: %s filter absent", label, kind))
		return
	}
	m, k := refmodel.OptimalParams(distinct, rate)
	if f.Cap() != m || f.K() != k {
		res.Findings = append(res.Findings, fnd("c26-sizing:"+kind, "C26 %s: %s filter has m=%d k=%d, optimal for %d distinct entries at rate %g is m=%d k=%d", label, kind, f.Cap(), f.K(), distinct, rate, m, k))
	}
	// bit-for-bit: the stored filter is the textbook-sized filter over exactly the
	// reference's entries (decides small filters, where the realised rate is dominated by
	// rounding and cannot be measured meaningfully)
	if want := sizedFilter(entries, rate); !bytes.Equal(filterBytes(want), filterBytes(f)) && f.Cap() == m && f.K() == k {
		res.Findings = append(res.Findings, fnd("c26-bits:"+kind, "C26 %s: %s filter differs bit for bit from a filter of the same size built over the reference's %d entries", label, kind, distinct))
	}
	fp := 0
	for i := 0; i < c26Universe; i++ {
		var e string
		switch kind {
		case "field":
			e = fmt.Sprintf("absent-field-%d", i)
		case "token":
			e = fmt.Sprintf("absent-token-%d", i)
		default:
			e = fmt.Sprintf("absent-%d::tok-%d", i, i)
		}
		if f.TestString(e) {
			fp++
		}
	}
	obs := float64(fp) / c26Universe
	sigma := math.Sqrt(rate * (1 - rate) / c26Universe)
	// 3x is the tolerance the repository documents for its own measurement
	// (TestFalsePositiveRateWithinBudget); 5 sigma covers the sampling of the universe.
	bound := rate*3 + 5*sigma
	if bound > 1 {
		bound = 1
	}
	// at very small rates the expected number of false positives in the universe is far below
	// one and the normal approximation above is meaningless: the count allowed is the Poisson
	// quantile (tail below 1e-6) at three times the configured rate
	if lam := 3 * rate * c26Universe; lam < 50 {
		term, cdf, c := math.Exp(-lam), 0.0, 0
		for cdf = term; 1-cdf > 1e-6 && c < 1000; {
			c++
			term *= lam / float64(c)
			cdf += term
		}
		if pb := float64(c) / c26Universe; pb > bound {
			bound = pb
		}
	}
	res.Nontrivial++
	if obs > bound {
		sig := "c26-rate:" + kind
		if distinct < 50 {
			sig = "c26-rate-small-filter" // catalogued: textbook sizing is inaccurate below ~50 entries
		}
		res.Findings = append(res.Findings, fnd(sig, "C26 %s: %s filter reports %.6f of %d absent entries as present, configured rate %g (tolerance %.6f); m=%d k=%d for %d entries", label, kind, obs, c26Universe, rate, bound, f.Cap(), f.K(), distinct))
	}
}

// c26SharedRows: a shared vocabulary — every token occurs under several fields, so the three
// entry kinds have very different distinct counts (4 fields, n tokens, 4n pairs).
func c26SharedRows(n int) []map[string]any {
	rows := make([]map[string]any, 0, n)
	for i := 0; i < n; i++ {
		t := fmt.Sprintf("w%d", i)
		rows = append(rows, map[string]any{"a": t, "b": t, "c": map[string]any{"d": t}, "e": []any{t, fmt.Sprintf("w%d", (i+1)%n)}})
	}
	return rows
}

func c26Case(n int, rate float64, producer string, shared ...bool) (res CaseResult) {
	cfg := quietConfig()
	cfg.RowDataCompression = bs.CompressionNone
	cfg.BloomFalsePositiveRate = rate
	if strings.HasSuffix(producer, "-parts") {
		// three partitions of unequal size with disjoint entries: one flush writes one file with
		// three blocks, whose file-level filters hold the union
		producer = strings.TrimSuffix(producer, "-parts")
		cfg.PartitionFunc = func(row map[string]any) string {
			for k := range row {
				var i int
				fmt.Sscanf(strings.TrimLeft(k, "fabcdeow"), "%d", &i)
				if len(row) > 1 {
					fmt.Sscanf(strings.TrimLeft(fmt.Sprint(row["a"]), "w"), "%d", &i)
				}
				switch {
				case i%10 < 6:
					return "pa"
				case i%10 < 9:
					return "pb"
				}
				return "pc"
			}
			return ""
		}
		defer func() {
			res.Sample = map[string]any{"n": n, "rate": rate, "producer": producer + "-parts"}
		}()
	}
	w, err := newWorld(cfg, nil)
	if err != nil {
		res.Findings = append(res.Findings, fnd("setup", "%v", err))
		return res
	}
	defer w.Close()
	rows := c26Rows(n)
	label := fmt.Sprintf("n=%d rate=%g %s", n, rate, producer)
	if len(shared) > 0 && shared[0] {
		rows = c26SharedRows(n)
		label += " shared-vocabulary"
	}
	switch producer {
	case "flush":
		err = w.Put(rows)
	case "merge-rebuilt": // two halves merged into one rebuilt block
		h := (n + 1) / 2
		err = w.Put(rows[:h])
		if err == nil && h < n {
			err = w.Put(rows[h:])
		}
		if err == nil {
			_, err = w.Eng.Merge(context.Background())
		}
	case "merge-copied": // one big block + one block that cannot combine with it (row limit)
		mc := cfg
		mc.MaxRowGroupRows = n // n + 1 > limit: blocks are copied verbatim
		err = w.Put(rows)
		if err == nil {
			err = w.Put([]map[string]any{{"other": "row"}})
		}
		if err == nil {
			var other *bs.BloomSearchEngine
			other, err = w.engineWith(mc)
			if err == nil {
				_, err = other.Merge(context.Background())
			}
		}
	}
	if err != nil {
		res.Findings = append(res.Findings, fnd("setup-ingest", "C26 %s: %v", label, err))
		return res
	}
	for _, ptr := range w.Meta.Pointers() {
		data, _ := w.Data.Bytes(ptr)
		pf, err := refmodel.ParseFile(data)
		if err != nil {
			res.Findings = append(res.Findings, fnd("c26-parse", "C26 %s: %v", label, err))
			continue
		}
		fileF, fileT, fileFT := map[string]bool{}, map[string]bool{}, map[string]bool{}
		for bi := range pf.Blocks {
			pb := &pf.Blocks[bi]
			bf, bt, bft := map[string]bool{}, map[string]bool{}, map[string]bool{}
			for _, rb := range pb.Rows {
				info, err := refmodel.Analyze(rb)
				if err != nil {
					continue
				}
				f, t, ft := info.Entries(w.Tok)
				for k := range f {
					bf[k], fileF[k] = true, true
				}
				for k := range t {
					bt[k], fileT[k] = true, true
				}
				for k := range ft {
					bft[k], fileFT[k] = true, true
				}
			}
			bl := fmt.Sprintf("%s %s block %d", label, ptr, bi)
			brate := rate
			if pb.Meta.BloomFalsePositiveRate != rate {
				res.Findings = append(res.Findings, fnd("c26-recorded-rate", "C26 %s: block records rate %g, configured %g", bl, pb.Meta.BloomFalsePositiveRate, rate))
			}
			c26Check(bl, pb.Filters.Field, bf, brate, "field", &res)
			c26Check(bl, pb.Filters.Token, bt, brate, "token", &res)
			c26Check(bl, pb.Filters.FieldToken, bft, brate, "fieldtoken", &res)
		}
		fl := fmt.Sprintf("%s %s file level", label, ptr)
		c26Check(fl, pf.FileFilters.Field, fileF, rate, "field", &res)
		c26Check(fl, pf.FileFilters.Token, fileT, rate, "token", &res)
		c26Check(fl, pf.FileFilters.FieldToken, fileFT, rate, "fieldtoken", &res)
		// the public helper returns the same file-level filters
		md, _, err := bs.ReadFileMetadata(bytes.NewReader(data))
		if err == nil && md.BloomFilters.FieldBloomFilter != nil && md.BloomFilters.FieldBloomFilter.Cap() != pf.FileFilters.Field.Cap() {
			res.Findings = append(res.Findings, fnd("c26-helper-differs", "C26 %s: ReadFileMetadata returns a differently sized field filter", fl))
		}
	}
	res.Sample = map[string]any{"n": n, "rate": rate, "producer": producer, "files": len(w.Meta.Pointers())}
	return res
}

func init() {
	modes["C26"] = ModeSpec{
		Cases: func(tier string) []Case {
			ns := []int{1, 2, 10, 50, 100, 1000, 10000}
			if tier == "thorough" {
				ns = append(ns, 100000, 300000)
			}
			var cs []Case
			if tier == "quick" {
				// volume: a block beyond 2^16 entries per filter at the tightest rates
				for _, x := range []struct {
					n    int
					rate float64
					p    string
				}{{100000, 1e-4, "flush"}, {100000, 1e-3, "merge-rebuilt"}, {150000, 0.01, "flush"}} {
					x := x
					cs = append(cs, Case{ID: fmt.Sprintf("n%d/p%g/%s", x.n, x.rate, x.p), Run: func() CaseResult { return c26Case(x.n, x.rate, x.p) }})
				}
			}
			// rates far below the usual ones (k = 30 hash functions at 1e-9): sizing must follow the
			// configured rate, not a floor
			for _, n := range []int{100, 5000} {
				for _, rate := range []float64{1e-7, 1e-9, 1e-12} {
					n, rate := n, rate
					cs = append(cs, Case{ID: fmt.Sprintf("tiny-rate/n%d/p%g", n, rate), Run: func() CaseResult { return c26Case(n, rate, "flush") }})
				}
			}
			// a shared vocabulary: distinct fields << distinct tokens << distinct field:token pairs
			for _, n := range []int{10, 300, 4000} {
				for _, rate := range []float64{0.1, 0.01, 1e-4} {
					for _, p := range []string{"flush", "merge-rebuilt"} {
						if tier == "quick" && p != "flush" && rate != 0.01 {
							continue
						}
						n, rate, p := n, rate, p
						cs = append(cs, Case{ID: fmt.Sprintf("shared/n%d/p%g/%s", n, rate, p), Run: func() CaseResult { return c26Case(n, rate, p, true) }})
					}
				}
			}
			// several partitions in one flush / merge: block filters per partition, file filters for the union
			for _, n := range []int{30, 1000, 20000} {
				for _, rate := range []float64{0.1, 0.01, 1e-4} {
					for _, p := range []string{"flush-parts", "merge-rebuilt-parts"} {
						for _, sh := range []bool{false, true} {
							if tier == "quick" && (sh != (p == "merge-rebuilt-parts") || (n == 20000 && rate != 0.01)) {
								continue
							}
							n, rate, p, sh := n, rate, p, sh
							cs = append(cs, Case{ID: fmt.Sprintf("parts/n%d/p%g/%s/shared_%v", n, rate, p, sh), Run: func() CaseResult { return c26Case(n, rate, p, sh) }})
						}
					}
				}
			}
			for _, n := range ns {
				for _, rate := range []float64{0.5, 0.1, 0.01, 1e-3, 1e-4} {
					for _, p := range []string{"flush", "merge-rebuilt", "merge-copied"} {
						if n >= 100000 && p != "flush" && rate != 0.01 {
							continue
						}
						n, rate, p := n, rate, p
						cs = append(cs, Case{ID: fmt.Sprintf("n%d/p%g/%s", n, rate, p), Run: func() CaseResult { return c26Case(n, rate, p) }})
					}
				}
			}
			return cs
		},
		Rule: "row shapes: one field and token per row (all three entry kinds have n distinct entries) and a shared vocabulary (4 fields, n tokens, 4n field:token pairs); rates from 0.5 down to 1e-12; grid: distinct entries n x rate x producer (flush, merge-rebuilt block, verbatim-copied block) and file level, single-partition and three-partition flushes and merges; per filter: (m,k) must equal the textbook optimum for the reference's distinct count, and the measured rate over a fixed universe of 200000 absent entries must stay within 3 x rate + 5 sigma (the repository's own documented tolerance); quick adds three volume cases (1e5 entries at 1e-4 and 1e-3, 1.5e5 at 0.01), thorough the full grid up to 3e5; deterministic given the tree",
	}
}

package main

import (
	"runtime"
	"sync/atomic"
	"bytes"
	"context"
	"crypto/sha256"
	"fmt"
	"io"
	"os"
	"path/filepath"
	"sort"
	"strings"

	bs "github.com/danthegoodman1/bloomsearch"

	"verif/vos"
)

// C16 — FileSystemDataStore against its specification: BFS over call sequences of up to
// three writers with a scripted name draw (forced collisions with committed, in-progress
// and aborted names); the reference model is a map; after every step the directory must
// hold exactly what the model says, byte for byte.

func shmDir() string {
	if d := os.Getenv("VERIF_SHM"); d != "" {
		return d
	}
	if *scratch != "" {
		return *scratch
	}
	return os.TempDir()
}

var c16Payloads = func() map[string][]byte {
	out := map[string][]byte{"G": []byte("garbage-bytes-not-a-bloom-file")}
	for i, name := range []string{"A", "B"} {
		cfg := quietConfig()
		cfg.RowDataCompression = bs.CompressionNone
		w, err := newWorld(cfg, nil)
		if err != nil {
			panic(err)
		}
		w.Put([]map[string]any{{"payload": name, "i": i}})
		b, _ := w.Data.Bytes(w.Meta.Pointers()[0])
		out[name] = append([]byte(nil), b...)
		w.Close()
	}
	return out
}

type c16op struct {
	kind string // create write close closefail abort tomb
	w    int
	arg  string
}

func (o c16op) String() string {
	return fmt.Sprintf("%s(%d%s)", o.kind, o.w, map[bool]string{true: "," + o.arg, false: ""}[o.arg != ""])
}

type c16writer struct {
	wc      io.WriteCloser
	ptr     string
	state   string // "", open, closed, aborted, closefailed, tombstoned
	written []byte
}

type c16world struct {
	dir     string
	store   *bs.FileSystemDataStore
	rec     *vos.Recorder
	writers []*c16writer
	script  []string
	fresh   int
	// model
	expect map[string][]byte // file name (relative) -> exact content
	listed map[string][]byte // pointers a scan must yield -> content
	// one reader may be held open across later operations (a query in progress): it must keep
	// returning the bytes its file had when it was opened, whatever happens to the name
	reader     io.ReadSeekCloser
	readerPtr  string
	readerWant []byte
	gone       map[string]bool // tombstoned pointers whose name was not drawn again: OpenFile must fail
}

func newC16World(nw int) (*c16world, error) {
	dir, err := os.MkdirTemp(shmDir(), "c16-")
	if err != nil {
		return nil, err
	}
	w := &c16world{dir: dir, expect: map[string][]byte{}, listed: map[string][]byte{}, gone: map[string]bool{}}
	w.rec = vos.Record(dir)
	w.store = bs.NewFileSystemDataStore(dir)
	w.store.VerifSetFileNameDraw(func() string {
		if len(w.script) > 0 {
			n := w.script[0]
			w.script = w.script[1:]
			return n
		}
		w.fresh++
		return fmt.Sprintf("fresh%d", w.fresh)
	})
	for i := 0; i < nw; i++ {
		w.writers = append(w.writers, &c16writer{})
	}
	return w, nil
}

// c16Closed counts torn-down worlds: writers that were never finished keep their descriptor
// until the os.File finalizer runs, so a collection is forced now and then (finishing them
// through the store instead would add two unlinks and a directory sync per writer and world).
var c16Closed atomic.Int64

func (w *c16world) close() {
	if w.reader != nil {
		w.reader.Close()
		w.reader = nil
	}
	w.rec.Stop()
	for _, wr := range w.writers {
		wr.wc = nil
	}
	os.RemoveAll(w.dir)
	if c16Closed.Add(1)%1500 == 0 {
		runtime.GC()
	}
}

func (w *c16world) enabled() []c16op {
	var ops []c16op
	// A pointer whose name was re-drawn by a later CreateFile (possible only once the
	// earlier writer aborted and removed its artifacts) no longer identifies the earlier
	// write cycle: tombstoning it is outside the store's contract and not explored.
	reused := func(i int) bool {
		for j, o := range w.writers {
			if j != i && o.ptr == w.writers[i].ptr && o.state != "" {
				return true
			}
		}
		return false
	}
	if w.reader != nil {
		ops = append(ops, c16op{"release", 0, ""})
	}
	for i, wr := range w.writers {
		if w.reader == nil && (wr.state == "closed" || strings.HasPrefix(wr.state, "closed+")) && !reused(i) {
			ops = append(ops, c16op{"hold", i, ""})
		}
		if (strings.HasPrefix(wr.state, "aborted") || wr.state == "closefailed" || strings.HasPrefix(wr.state, "closed+") || wr.state == "closed") && reused(i) {
			continue
		}
		switch wr.state {
		case "":
			for _, n := range []string{"n0", "n00"} {
				ops = append(ops, c16op{"create", i, n})
			}
		case "open":
			if wr.written == nil {
				for _, p := range []string{"A", "B", "G"} {
					ops = append(ops, c16op{"write", i, p})
				}
			}
			ops = append(ops, c16op{"close", i, ""}, c16op{"closefail", i, "fsync"}, c16op{"closefail", i, "rename"}, c16op{"abort", i, ""})
		case "closefailed":
			ops = append(ops, c16op{"abort", i, ""}, c16op{"tomb", i, ""})
		case "closed", "aborted":
			ops = append(ops, c16op{"tomb", i, ""})
			// calls on a finished writer ("any sequence"): a second Close, an Abort after the
			// Close (documented no-op), a Write — none may change what the directory holds
			ops = append(ops, c16op{"again", i, "close"}, c16op{"again", i, "abort"}, c16op{"again", i, "write"})
		default:
			if strings.HasPrefix(wr.state, "closed+") || strings.HasPrefix(wr.state, "aborted+") {
				ops = append(ops, c16op{"tomb", i, ""})
				for _, k := range []string{"close", "abort"} {
					if !strings.Contains(wr.state, "+"+k) {
						ops = append(ops, c16op{"again", i, k})
					}
				}
			}
		}
	}
	return ops
}

func validBloom(b []byte) bool {
	_, _, err := bs.ReadFileMetadata(bytes.NewReader(b))
	return err == nil
}

// apply performs op on the real store and on the model.
func (w *c16world) apply(op c16op, payloads map[string][]byte) error {
	wr := w.writers[op.w]
	ctx := context.Background()
	rel := func(p string) string { return filepath.Base(p) }
	switch op.kind {
	case "create":
		w.script = []string{op.arg}
		existing := map[string]bool{}
		for n := range w.expect {
			existing[n] = true
		}
		wc, ptr, err := w.store.CreateFile(ctx)
		if err != nil {
			return fmt.Errorf("CreateFile: %v", err)
		}
		p := string(ptr)
		base := strings.TrimSuffix(rel(p), ".dat")
		if existing[base+".dat"] || existing[base+".tmp"] {
			return fmt.Errorf("CreateFile returned pointer %s whose name collides with existing artifacts %v", rel(p), sortedNames(existing))
		}
		*wr = c16writer{wc: wc, ptr: p, state: "open"}
		delete(w.gone, p)
		w.expect[base+".dat"] = []byte{}
		w.expect[base+".tmp"] = []byte{}
	case "write":
		data := payloads[op.arg]
		if _, err := wr.wc.Write(data); err != nil {
			return fmt.Errorf("Write: %v", err)
		}
		wr.written = append([]byte{}, data...)
		w.expect[strings.TrimSuffix(rel(wr.ptr), ".dat")+".tmp"] = wr.written
	case "close":
		if err := wr.wc.Close(); err != nil {
			return fmt.Errorf("Close: %v", err)
		}
		base := strings.TrimSuffix(rel(wr.ptr), ".dat")
		delete(w.expect, base+".tmp")
		content := append([]byte{}, wr.written...)
		w.expect[base+".dat"] = content
		wr.state = "closed"
		if validBloom(content) {
			w.listed[wr.ptr] = content
		}
	case "closefail":
		w.rec.FailNext(op.arg, 1)
		err := wr.wc.Close()
		w.rec.FailNext(op.arg, 0)
		if err == nil {
			return fmt.Errorf("Close succeeded although %s failed", op.arg)
		}
		wr.state = "closefailed" // reservation and .tmp stay, both invisible to scans
	case "abort":
		ab, ok := wr.wc.(interface{ Abort() error })
		if !ok {
			return fmt.Errorf("writer does not implement Abort")
		}
		if err := ab.Abort(); err != nil {
			return fmt.Errorf("Abort: %v", err)
		}
		base := strings.TrimSuffix(rel(wr.ptr), ".dat")
		delete(w.expect, base+".tmp")
		delete(w.expect, base+".dat")
		wr.state = "aborted"
	case "hold":
		h, err := w.store.OpenFile(ctx, []byte(wr.ptr))
		if err != nil {
			return fmt.Errorf("OpenFile(%s): %v", rel(wr.ptr), err)
		}
		w.reader, w.readerPtr = h, wr.ptr
		w.readerWant = append([]byte{}, w.expect[rel(wr.ptr)]...)
	case "release":
		b, err := io.ReadAll(w.reader)
		cerr := w.reader.Close()
		if err != nil || !bytes.Equal(b, w.readerWant) {
			return fmt.Errorf("a reader opened on %s before the later operations returns %d bytes (err %v), the file held %d when it was opened", rel(w.readerPtr), len(b), err, len(w.readerWant))
		}
		if cerr != nil {
			return fmt.Errorf("closing the held reader on %s: %v", rel(w.readerPtr), cerr)
		}
		w.reader = nil
	case "again":
		// the return value is the writer's business; the directory must stay as it is
		switch op.arg {
		case "close":
			wr.wc.Close()
		case "abort":
			if ab, ok := wr.wc.(interface{ Abort() error }); ok {
				ab.Abort()
			}
		case "write":
			wr.wc.Write([]byte("late write"))
		}
		wr.state += "+" + op.arg
	case "tomb":
		if err := w.store.TombstoneFile(ctx, []byte(wr.ptr)); err != nil {
			return fmt.Errorf("TombstoneFile: %v", err)
		}
		base := strings.TrimSuffix(rel(wr.ptr), ".dat")
		delete(w.expect, base+".tmp")
		delete(w.expect, base+".dat")
		delete(w.listed, wr.ptr)
		w.gone[wr.ptr] = true
		*wr = c16writer{} // the slot can create again
	}
	return nil
}

func sortedNames(m map[string]bool) []string {
	var out []string
	for k := range m {
		out = append(out, k)
	}
	sort.Strings(out)
	return out
}

// check compares the real directory, the scan and OpenFile with the model.
func (w *c16world) check() error {
	ents, err := os.ReadDir(w.dir)
	if err != nil {
		return err
	}
	got := map[string][]byte{}
	for _, e := range ents {
		b, err := os.ReadFile(filepath.Join(w.dir, e.Name()))
		if err != nil {
			return err
		}
		got[e.Name()] = b
	}
	for n, want := range w.expect {
		g, ok := got[n]
		if !ok {
			return fmt.Errorf("directory lacks %s (expected %d bytes)", n, len(want))
		}
		if !bytes.Equal(g, want) {
			return fmt.Errorf("%s holds %d bytes, the model says %d bytes (content differs)", n, len(g), len(want))
		}
	}
	for n := range got {
		if _, ok := w.expect[n]; !ok {
			return fmt.Errorf("directory holds unexpected artifact %s (%d bytes)", n, len(got[n]))
		}
	}
	listed := map[string]bool{}
	for f, err := range w.store.GetMaybeFilesForQuery(context.Background(), nil) {
		if err != nil {
			return fmt.Errorf("scan: %v", err)
		}
		listed[string(f.PointerBytes)] = true
	}
	for p := range w.listed {
		if !listed[p] {
			return fmt.Errorf("scan does not list %s although its Close succeeded and it was not tombstoned", filepath.Base(p))
		}
	}
	for p := range listed {
		if _, ok := w.listed[p]; !ok {
			return fmt.Errorf("scan lists %s which is not a successfully closed, untombstoned bloom file", filepath.Base(p))
		}
	}
	for p := range w.gone {
		if h, err := w.store.OpenFile(context.Background(), []byte(p)); err == nil {
			h.Close()
			return fmt.Errorf("OpenFile(%s) succeeds although the file was tombstoned and its name has not been drawn again", filepath.Base(p))
		}
	}
	for p, want := range w.listed {
		h, err := w.store.OpenFile(context.Background(), []byte(p))
		if err != nil {
			return fmt.Errorf("OpenFile(%s): %v", filepath.Base(p), err)
		}
		b, err := io.ReadAll(h)
		h.Close()
		if err != nil || !bytes.Equal(b, want) {
			return fmt.Errorf("OpenFile(%s) returns %d bytes, %d were written", filepath.Base(p), len(b), len(want))
		}
	}
	return nil
}

func (w *c16world) key() string {
	var sb strings.Builder
	names := make([]string, 0, len(w.expect))
	for n := range w.expect {
		names = append(names, n)
	}
	sort.Strings(names)
	for _, n := range names {
		h := sha256.Sum256(w.expect[n])
		fmt.Fprintf(&sb, "%s:%x;", n, h[:6])
	}
	for _, wr := range w.writers {
		fmt.Fprintf(&sb, "|%s,%s,%d", wr.state, filepath.Base(wr.ptr), len(wr.written))
	}
	fmt.Fprintf(&sb, "|f%d", w.fresh)
	if w.reader != nil {
		h := sha256.Sum256(w.readerWant)
		fmt.Fprintf(&sb, "|r:%s:%x", filepath.Base(w.readerPtr), h[:6])
	}
	gone := make([]string, 0, len(w.gone))
	for p := range w.gone {
		gone = append(gone, filepath.Base(p))
	}
	sort.Strings(gone)
	fmt.Fprintf(&sb, "|g:%s", strings.Join(gone, ","))
	return sb.String()
}

func c16BFS(nw, depth int, root []c16op) CaseResult {
	var res CaseResult
	payloads := c16Payloads()
	seen := map[string]bool{}
	frontier := [][]c16op{root}
	outcomes := map[string]bool{}
	replay := func(ops []c16op) (*c16world, error) {
		w, err := newC16World(nw)
		if err != nil {
			return nil, err
		}
		for i, op := range ops {
			// the op must be enabled in the state reached so far
			ok := false
			for _, e := range w.enabled() {
				if e == op {
					ok = true
				}
			}
			if !ok {
				w.close()
				return nil, nil
			}
			if err := w.apply(op, payloads); err != nil {
				w.close()
				return nil, fmt.Errorf("after %v: %v", ops[:i+1], err)
			}
			if i == len(ops)-1 {
				if err := w.check(); err != nil {
					w.close()
					return nil, fmt.Errorf("after %v: %v", ops, err)
				}
			}
		}
		return w, nil
	}
	for d := len(root); d <= depth && len(frontier) > 0; d++ {
		var next [][]c16op
		for _, ops := range frontier {
			w, err := replay(ops)
			res.Evals++
			res.Transitions++
			if err != nil {
				res.Findings = append(res.Findings, fnd("c16-model-mismatch", "C16 %v", err))
				if len(res.Findings) > 8 {
					return res
				}
				continue
			}
			if w == nil {
				continue
			}
			k := w.key()
			en := w.enabled()
			outcomes[fmt.Sprintf("%dfiles/%dlisted", len(w.expect), len(w.listed))] = true
			w.close()
			if seen[k] {
				continue
			}
			seen[k] = true
			res.States++
			res.Nontrivial++
			if d == depth {
				continue
			}
			for _, op := range en {
				next = append(next, append(append([]c16op{}, ops...), op))
			}
		}
		frontier = next
	}
	for o := range outcomes {
		res.Outcomes = append(res.Outcomes, o)
	}
	res.Sample = map[string]any{"writers": nw, "depth": depth, "root": fmt.Sprint(root), "states": res.States}
	return res
}

func init() {
	modes["C16"] = ModeSpec{
		Cases: func(tier string) []Case {
			nw, depth := 2, 7
			if tier == "thorough" {
				nw, depth = 3, 8
			}
			var cs []Case
			// split by the first two operations so the subtrees run in parallel
			for _, n0 := range []string{"n0"} {
				for _, second := range []c16op{{"create", 1, "n0"}, {"create", 1, "n00"}, {"write", 0, "A"}, {"write", 0, "G"}, {"close", 0, ""}, {"closefail", 0, "fsync"}, {"closefail", 0, "rename"}, {"abort", 0, ""}} {
					second := second
					root := []c16op{{"create", 0, n0}, second}
					cs = append(cs, Case{ID: fmt.Sprintf("bfs/%v", root), Run: func() CaseResult { return c16BFS(nw, depth, root) }})
				}
			}
			return cs
		},
		Rule: "breadth-first search over call sequences of 2 (quick) / 3 (thorough) writer slots: CreateFile with a scripted name draw (n0/n00 — one name a proper prefix of the other — so every creation can collide with a committed, in-progress, failed-close or aborted name and must redraw), Write(valid bloom file A/B | garbage), Close, a second Close / an Abort / a Write on a finished writer, Close failing at fsync/rename, Abort, TombstoneFile after the writer finished, slot reuse after tombstone, one reader opened on a published file and held across later operations (it must keep returning the bytes of its file), tombstoned pointers must not open; depth 7 / 8, states deduplicated by (directory contents, writer states); after every step the real directory must equal the map model byte for byte, the scan must list exactly the valid successfully-closed untombstoned files and OpenFile must return the written bytes",
	}
}

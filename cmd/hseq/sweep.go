package main

import (
	"bytes"
	"fmt"
	"sort"
	"sync"

	"github.com/bits-and-blooms/bloom/v3"
	bs "github.com/danthegoodman1/bloomsearch"

	"verif/hstore"
	"verif/refmodel"
)

// sweepOpts selects which oracles a query sweep evaluates.
type sweepOpts struct{ c01, c02, c23, c24 bool }

type readRec struct {
	ptr string
	off int64
	n   int
}

type ioLog struct {
	mu    sync.Mutex
	opens []string
	reads []readRec
}

func (l *ioLog) reset() { l.mu.Lock(); l.opens, l.reads = nil, nil; l.mu.Unlock() }

func attachIOLog(d *hstore.MemData) *ioLog {
	l := &ioLog{}
	d.Hook = &hstore.Hook{Enter: func(op, ptr string, n int) error {
		if op == "OpenFile" {
			l.mu.Lock()
			l.opens = append(l.opens, ptr)
			l.mu.Unlock()
		}
		return nil
	}}
	d.ReadLog = func(ptr string, off int64, n int) {
		l.mu.Lock()
		l.reads = append(l.reads, readRec{ptr, off, n})
		l.mu.Unlock()
	}
	return l
}

// filterEval evaluates a bloom expression against a filter triple with fail-open
// semantics for absent filters (independent of the engine's evaluator).
func filterEval(f bs.BloomFilters, e *bs.BloomExpression) bool {
	if e == nil {
		return true
	}
	test := func(bf *bloom.BloomFilter, s string) bool {
		if bf == nil {
			return true
		}
		return bf.TestString(s)
	}
	switch e.ExpressionType {
	case bs.BloomExpressionCondition:
		c := e.Condition
		if c == nil {
			return true
		}
		switch c.Type {
		case bs.BloomField:
			return test(f.FieldBloomFilter, c.Field)
		case bs.BloomToken:
			return test(f.TokenBloomFilter, c.Token)
		case bs.BloomFieldToken:
			return test(f.FieldTokenBloomFilter, c.Field+"::"+c.Token)
		}
		return false
	case bs.BloomExpressionAnd:
		for i := range e.Children {
			if !filterEval(f, &e.Children[i]) {
				return false
			}
		}
		return true
	case bs.BloomExpressionOr:
		for i := range e.Children {
			if filterEval(f, &e.Children[i]) {
				return true
			}
		}
		return false
	}
	return false
}

// storeIndex is the reference view of a world used by the per-query oracles.
type storeIndex struct {
	blocks   []BlockView
	byKey    map[string]*BlockView // file+"@"+offset
	stored   map[string]int        // canon -> multiplicity
	t1match  func(q *bs.Query) map[string]int
	groupsT2 map[string]int // canon -> number of stored rows with an empty key somewhere
}

func indexWorld(w *World) (*storeIndex, error) {
	bl, err := w.Blocks()
	if err != nil {
		return nil, err
	}
	si := &storeIndex{blocks: bl, byKey: map[string]*BlockView{}, stored: map[string]int{}, groupsT2: map[string]int{}}
	for i := range bl {
		si.byKey[fmt.Sprintf("%s@%d", bl[i].File, bl[i].Meta.RowDataOffset)] = &bl[i]
	}
	for _, r := range w.Rows {
		si.stored[r.Info.Canon]++
		if r.Info.EmptyKey {
			si.groupsT2[r.Info.Canon]++
		}
	}
	return si, nil
}

// refCounts returns, per canonical row, how many stored T1 rows match q by the reference.
func refCounts(rows []StoredRow, q *bs.Query, tok refmodel.Tokenizer) map[string]int {
	m := map[string]int{}
	for i := range rows {
		r := &rows[i]
		if r.Info.EmptyKey {
			continue
		}
		if refmodel.MatchQuery(r.Info, q, tok) {
			m[r.Info.Canon]++
		}
	}
	return m
}

func keysUnion(ms ...map[string]int) []string {
	u := map[string]bool{}
	for _, m := range ms {
		for k := range m {
			u[k] = true
		}
	}
	return sortedStrings(u)
}

// checkStats evaluates the C23 accounting rules for one completed query.
func checkStats(name string, qr QueryResult, si *storeIndex, q *bs.Query, out *[]Finding) {
	if qr.QueryErr != nil {
		return
	}
	// the "at most once", "all or none per file", "source of a returned row is processed" and
	// "skipped blocks report zero" clauses hold for every terminated query; the equalities
	// only on clean completion
	clean := qr.Err == nil
	st := qr.Stats
	seen := map[string]bool{}
	skippedKeys := map[string]bool{}
	listedPerFile := map[string]int{}
	var rowsScanned, bytesScanned int64
	skipped, processed := 0, 0
	for _, b := range st.BlockStats {
		k := fmt.Sprintf("%s@%d", b.FilePointer, b.BlockOffset)
		if seen[k] {
			*out = append(*out, fnd("c23-duplicate-block", "C23 %s: block %s listed twice in BlockStats", name, k))
		}
		seen[k] = true
		listedPerFile[string(b.FilePointer)]++
		bv := si.byKey[k]
		if bv == nil {
			*out = append(*out, fnd("c23-unknown-block", "C23 %s: BlockStats lists unknown block %s", name, k))
			continue
		}
		if b.BloomFilterSkipped {
			skipped++
			skippedKeys[k] = true
			if b.RowsProcessed != 0 || b.BytesProcessed != 0 {
				*out = append(*out, fnd("c23-skipped-nonzero", "C23 %s: skipped block %s reports rows=%d bytes=%d", name, k, b.RowsProcessed, b.BytesProcessed))
			}
		} else {
			processed++
			if !clean {
				rowsScanned += b.RowsProcessed
				bytesScanned += b.BytesProcessed
				continue
			}
			if b.RowsProcessed != int64(len(bv.Canon)) {
				*out = append(*out, fnd("c23-rows-processed", "C23 %s: processed block %s RowsProcessed=%d but the block holds %d rows", name, k, b.RowsProcessed, len(bv.Canon)))
			}
			if b.BytesProcessed != int64(bv.Meta.UncompressedSize) {
				*out = append(*out, fnd("c23-bytes-processed", "C23 %s: processed block %s BytesProcessed=%d, uncompressed size %d", name, k, b.BytesProcessed, bv.Meta.UncompressedSize))
			}
		}
		if b.TotalRows != int64(bv.Meta.Rows) {
			*out = append(*out, fnd("c23-total-rows", "C23 %s: block %s TotalRows=%d, metadata says %d", name, k, b.TotalRows, bv.Meta.Rows))
		}
		rowsScanned += b.RowsProcessed
		bytesScanned += b.BytesProcessed
	}
	if clean && (st.BlocksSkipped != skipped || st.BlocksProcessed != processed || st.RowsScanned != rowsScanned || st.BytesScanned != bytesScanned) {
		*out = append(*out, fnd("c23-totals", "C23 %s: totals (%d skipped, %d processed, %d rows, %d bytes) differ from per-block sums (%d, %d, %d, %d)",
			name, st.BlocksSkipped, st.BlocksProcessed, st.RowsScanned, st.BytesScanned, skipped, processed, rowsScanned, bytesScanned))
	}
	if clean && st.RowsMatched != int64(len(qr.Rows)) {
		*out = append(*out, fnd("c23-rows-matched", "C23 %s: RowsMatched=%d but %d rows were returned", name, st.RowsMatched, len(qr.Rows)))
	}
	// all-or-none of the prefilter-surviving blocks per file
	perFileSurvivors := map[string]int{}
	for i := range si.blocks {
		b := &si.blocks[i]
		if bs.EvaluateDataBlockMetadata(&b.Meta, q.Prefilter) {
			perFileSurvivors[b.File]++
		}
	}
	for f, n := range listedPerFile {
		if n != perFileSurvivors[f] {
			*out = append(*out, fnd("c23-all-or-none", "C23 %s: file %s lists %d blocks but %d survive the prefilter", name, f, n, perFileSurvivors[f]))
		}
	}
	// every block that contributed a returned row is listed as processed
	got := countOf(qr.Rows)
	for i := range si.blocks {
		b := &si.blocks[i]
		k := fmt.Sprintf("%s@%d", b.File, b.Meta.RowDataOffset)
		if seen[k] && !skippedKeys[k] {
			continue
		}
		for _, c := range b.Canon {
			if got[c] > 0 && onlyIn(si, c, b) {
				*out = append(*out, fnd("c23-unlisted-source", "C23 %s: row %s was returned but its only block %s is not listed as processed in BlockStats (listed=%v skipped=%v)", name, c, k, seen[k], skippedKeys[k]))
				break
			}
		}
	}
}

func onlyIn(si *storeIndex, canon string, b *BlockView) bool {
	for i := range si.blocks {
		o := &si.blocks[i]
		if o == b {
			continue
		}
		for _, c := range o.Canon {
			if c == canon {
				return false
			}
		}
	}
	return true
}

// checkIO evaluates the C24 pruning rules for one completed query.
func checkIO(name string, l *ioLog, w *World, si *storeIndex, q *bs.Query, fileFilters map[string]bs.BloomFilters, blockFilters map[string]bs.BloomFilters, out *[]Finding) {
	l.mu.Lock()
	opens := append([]string(nil), l.opens...)
	reads := append([]readRec(nil), l.reads...)
	l.mu.Unlock()
	var be *bs.BloomExpression
	if q.Bloom != nil {
		be = q.Bloom.Expression
	}
	// a regex condition can only match rows that have its field path: filters that rule the
	// path out rule the condition out (computed here from the tree, not with the library's helper)
	if q.Regex != nil {
		if g := regexFieldGuard(q.Regex.Expression); g != nil {
			if be == nil {
				be = g
			} else {
				both := bs.BloomExpression{ExpressionType: bs.BloomExpressionAnd, Children: []bs.BloomExpression{*be, *g}}
				be = &both
			}
		}
	}
	opened := map[string]bool{}
	for _, p := range opens {
		opened[p] = true
	}
	for _, ptr := range w.Meta.Pointers() {
		if !filterEval(fileFilters[ptr], be) && opened[ptr] {
			*out = append(*out, fnd("c24-open-ruled-out-file", "C24 %s: file %s was opened although its file-level filters rule out the bloom expression", name, ptr))
		}
	}
	hasCond := refmodel.HasConditionLeaf(q)
	for _, r := range reads {
		if r.n == 0 {
			continue
		}
		md, ok := w.Meta.Metadata(r.ptr)
		if !ok {
			continue
		}
		lo, hi := r.off, r.off+int64(r.n)
		ro, re := int64(md.BlockFilterRegionOffset), int64(md.BlockFilterRegionOffset+md.BlockFilterRegionSize)
		inRegion := lo >= ro && hi <= re
		touchesRegion := lo < re && hi > ro
		if touchesRegion && !hasCond {
			*out = append(*out, fnd("c24-region-read-without-conditions", "C24 %s: read [%d,%d) of %s touches the block filter region [%d,%d) although the query has no bloom or regex condition", name, lo, hi, r.ptr, ro, re))
		}
		if inRegion {
			continue
		}
		// must lie inside exactly one block's row data, and that block must not be ruled out
		found := false
		for i := range si.blocks {
			b := &si.blocks[i]
			if b.File != r.ptr {
				continue
			}
			bo, be2 := int64(b.Meta.RowDataOffset), int64(b.Meta.RowDataOffset+b.Meta.RowDataSize)
			if lo >= bo && hi <= be2 {
				found = true
				if !bs.EvaluateDataBlockMetadata(&b.Meta, q.Prefilter) {
					*out = append(*out, fnd("c24-read-prefiltered-block", "C24 %s: row data of %s@%d was read although the prefilter rules the block out", name, r.ptr, bo))
				} else if q.Prefilter != nil && prefilterWellFormed(q.Prefilter.Expression) && !refBlockSatisfies(&b.Meta, q.Prefilter.Expression) {
					// decided by exact range reasoning on the recorded metadata, independently of the
					// engine's evaluator: no value of the recorded range can satisfy the prefilter
					*out = append(*out, fnd("c24-read-block-ruled-out-by-range", "C24 %s: row data of %s@%d (partition %q, ranges %v) was read although no value its metadata admits can satisfy the prefilter", name, r.ptr, bo, b.Meta.PartitionID, b.Meta.MinMaxIndexes))
				} else if !filterEval(blockFilters[fmt.Sprintf("%s@%d", b.File, b.Meta.RowDataOffset)], be) {
					*out = append(*out, fnd("c24-read-filtered-block", "C24 %s: row data of %s@%d was read although its block filters rule out the bloom expression", name, r.ptr, bo))
				}
				break
			}
		}
		if !found {
			*out = append(*out, fnd("c24-read-outside-extents", "C24 %s: read [%d,%d) of %s lies neither in the block filter region nor inside one block's row data", name, lo, hi, r.ptr))
		}
	}
}

// loadFilters reads every file's and block's filters through the public helpers.
func loadFilters(w *World) (map[string]bs.BloomFilters, map[string]bs.BloomFilters, error) {
	ff, bf := map[string]bs.BloomFilters{}, map[string]bs.BloomFilters{}
	for _, ptr := range w.Meta.Pointers() {
		data, _ := w.Data.Bytes(ptr)
		md, _, err := bs.ReadFileMetadata(bytes.NewReader(data))
		if err != nil {
			return nil, nil, err
		}
		ff[ptr] = md.BloomFilters
		for _, b := range md.DataBlocks {
			f, err := bs.ReadDataBlockBloomFilters(bytes.NewReader(data), b)
			if err != nil {
				return nil, nil, err
			}
			bf[fmt.Sprintf("%s@%d", ptr, b.RowDataOffset)] = *f
		}
	}
	return ff, bf, nil
}

// sweepCase: one tokenizer x one layout, every atomic condition.
func sweepCase(tk namedTok, lay layout, o sweepOpts) CaseResult {
	return sweepCaseRows(tk, lay, o, alphaRows())
}

func sweepCaseRows(tk namedTok, lay layout, o sweepOpts, rows []map[string]any) CaseResult {
	var res CaseResult
	if n := layoutLimit[lay.name]; n > 0 && len(rows) > n {
		rows = rows[:n]
	}
	tcfg := quietConfig()
	tcfg.Tokenizer = tk.eng
	tcfg.RowDataCompression = bs.CompressionNone
	tcfg.BloomFalsePositiveRate = 0.999
	truth, err := newWorld(tcfg, tk.ref)
	if err != nil {
		res.Findings = append(res.Findings, fnd("setup", "truth world: %v", err))
		return res
	}
	defer truth.Close()
	if err := truth.Put(rows); err != nil {
		res.Findings = append(res.Findings, fnd("setup-ingest", "truth layout ingest failed: %v", err))
		return res
	}
	lcfg := quietConfig()
	lcfg.Tokenizer = tk.eng
	lcfg = lay.cfg(lcfg)
	mk := newWorld
	if lay.shipped {
		mk = newWorldShipped
	}
	lw, err := mk(lcfg, tk.ref)
	if err != nil {
		res.Findings = append(res.Findings, fnd("setup", "layout world: %v", err))
		return res
	}
	defer lw.Close()
	if err := lay.build(lw, rows); err != nil {
		res.Findings = append(res.Findings, fnd("layout-build", "layout %s failed to build: %v", lay.name, err))
		return res
	}
	si, err := indexWorld(lw)
	if err != nil {
		res.Findings = append(res.Findings, fnd("layout-readback", "layout %s: %v", lay.name, err))
		return res
	}
	// the layout must hold exactly the corpus
	var all []string
	for _, b := range si.blocks {
		all = append(all, b.Canon...)
	}
	var want []string
	for _, r := range lw.Rows {
		want = append(want, r.Info.Canon)
	}
	if miss, extra := diffMultiset(all, want); len(miss)+len(extra) > 0 {
		res.Findings = append(res.Findings, fnd("layout-content", "layout %s stores a different multiset than was acknowledged: missing %s; extra %s", lay.name, short(miss, 3), short(extra, 3)))
	}
	var iol *ioLog
	var ff, bf map[string]bs.BloomFilters
	if o.c24 {
		ff, bf, err = loadFilters(lw)
		if err != nil {
			res.Findings = append(res.Findings, fnd("layout-filters", "layout %s: %v", lay.name, err))
			return res
		}
		iol = attachIOLog(lw.Data)
	}
	atoms := atomsFor(truth.Rows, tk.ref)
	outcomes := map[string]bool{}
	state0 := lw.storedState()
	probe := newProbes(lw, nil)
	// Rows with duplicate object keys come back with the first duplicate kept (a C03
	// matter, decided there); identify them with their stored row here.
	alias := map[string]string{}
	for _, r := range truth.Rows {
		if r.Info.CanonFirst != r.Info.Canon {
			alias[r.Info.CanonFirst] = r.Info.Canon
		}
	}
	unalias := func(xs []string) []string {
		out := make([]string, len(xs))
		for i, x := range xs {
			if a, ok := alias[x]; ok {
				x = a
			}
			out[i] = x
		}
		return out
	}
	for _, a := range atoms {
		q := a.query()
		res.Evals++
		tr := truth.Query(q)
		if iol != nil {
			iol.reset()
		}
		lr := lw.Query(q)
		name := fmt.Sprintf("[%s/%s %s]", tk.name, lay.name, a.name)
		if tr.QueryErr != nil || lr.QueryErr != nil || tr.Err != nil || lr.Err != nil {
			res.Findings = append(res.Findings, fnd("query-error", "%s: query failed on healthy stores: %v %v %v %v", name, tr.QueryErr, lr.QueryErr, tr.Err, lr.Err))
			continue
		}
		ref := refCounts(truth.Rows, q, tk.ref)
		tr.Rows, lr.Rows = unalias(tr.Rows), unalias(lr.Rows)
		tg, lg := countOf(tr.Rows), countOf(lr.Rows)
		if len(tr.Rows) > 0 {
			res.Nontrivial++
		}
		outcomes[fmt.Sprint(len(tr.Rows))] = true
		for _, c := range keysUnion(ref, tg, lg) {
			lo := ref[c]
			hi := lo + si.groupsT2[c]
			if o.c01 {
				if tg[c] < lo {
					res.Findings = append(res.Findings, fnd("c01-missing-vs-reference", "C01 %s: row %s matches by the documented semantics (%d stored) but the unpruned layout returned it %d times", name, c, lo, tg[c]))
				}
				if lg[c] < tg[c] {
					res.Findings = append(res.Findings, fnd("c01-missing-vs-unpruned-layout", "C01 %s: row %s is returned %d times when filters cannot prune but %d times on this layout", name, c, tg[c], lg[c]))
				}
			}
			if o.c02 {
				if tg[c] > hi {
					res.Findings = append(res.Findings, fnd("c02-extra-vs-reference", "C02 %s: row %s returned %d times, at most %d stored rows match by the documented semantics", name, c, tg[c], hi))
				}
				if lg[c] > tg[c] {
					res.Findings = append(res.Findings, fnd("c02-extra-vs-unpruned-layout", "C02 %s: row %s returned %d times on this layout, %d times without pruning", name, c, lg[c], tg[c]))
				}
				if lg[c] > si.stored[c] {
					res.Findings = append(res.Findings, fnd("c02-not-stored", "C02 %s: row %s returned %d times but stored %d times", name, c, lg[c], si.stored[c]))
				}
			}
		}
		if o.c23 {
			checkStats(name, lr, si, q, &res.Findings)
		}
		if o.c24 {
			checkIO(name, iol, lw, si, q, ff, bf, &res.Findings)
		}
		if len(res.Findings) > 30 {
			break
		}
	}
	if now := lw.storedState(); o.c02 && now != state0 {
		if d := probe.differs(lw); d != "" {
			res.Findings = append(res.Findings, fnd("c02-query-changed-later-answers", "C02 [%s/%s]: after the query sweep a query answers differently than before it (%s); stored state changed: %s", tk.name, lay.name, d, firstDiffLine(state0, now)))
		}
	}
	for k := range outcomes {
		res.Outcomes = append(res.Outcomes, k)
	}
	sort.Strings(res.Outcomes)
	res.Sample = map[string]any{"tokenizer": tk.name, "shipped_memory_meta_store": lay.shipped, "layout": lay.name, "rows": len(rows), "files": len(lw.Meta.Pointers()), "blocks": len(si.blocks),
		"queries": len(atoms), "first_queries": []string{atoms[0].name, atoms[len(atoms)/2].name, atoms[len(atoms)-1].name}}
	return res
}

// noLeafCase: bloom / regex trees without any condition leaf (And(), Or(), nested) — such a
// query "has no bloom or regex conditions", so C24 forbids block filter region reads.
func noLeafCase(o sweepOpts) CaseResult {
	var res CaseResult
	cfg := quietConfig()
	cfg.BloomFalsePositiveRate = 0.01
	cfg.PartitionFunc = partByShape
	w, err := newWorld(cfg, nil)
	if err != nil {
		res.Findings = append(res.Findings, fnd("setup", "%v", err))
		return res
	}
	defer w.Close()
	if err := putChunks(w, alphaRows()[:60], 20); err != nil {
		res.Findings = append(res.Findings, fnd("setup-ingest", "%v", err))
		return res
	}
	si, err := indexWorld(w)
	if err != nil {
		res.Findings = append(res.Findings, fnd("layout-readback", "%v", err))
		return res
	}
	ff, bf, err := loadFilters(w)
	if err != nil {
		res.Findings = append(res.Findings, fnd("layout-filters", "%v", err))
		return res
	}
	iol := attachIOLog(w.Data)
	and0, or0 := bs.And(), bs.Or()
	nested := bs.BloomExpression{ExpressionType: bs.BloomExpressionAnd, Children: []bs.BloomExpression{{ExpressionType: bs.BloomExpressionAnd}, {ExpressionType: bs.BloomExpressionCondition}}}
	rand0 := bs.RegexAnd()
	qs := []*bs.Query{
		{Bloom: &bs.BloomQuery{Expression: &and0}},
		{Bloom: &bs.BloomQuery{Expression: &or0}},
		{Bloom: &bs.BloomQuery{Expression: &nested}},
		{Regex: &bs.RegexQuery{Expression: &rand0}},
		{Bloom: &bs.BloomQuery{}, Regex: &bs.RegexQuery{}},
		bs.NewQuery().Build(),
	}
	for i, q := range qs {
		iol.reset()
		qr := w.Query(q)
		res.Evals++
		res.Nontrivial++
		name := fmt.Sprintf("[no-leaf #%d %s]", i, describeQuery(q))
		if qr.Err != nil || qr.QueryErr != nil {
			res.Findings = append(res.Findings, fnd("query-error", "%s: %v %v", name, qr.QueryErr, qr.Err))
			continue
		}
		if o.c24 {
			checkIO(name, iol, w, si, q, ff, bf, &res.Findings)
		}
		if o.c23 {
			checkStats(name, qr, si, q, &res.Findings)
		}
	}
	return res
}

// regexFieldGuard: the field-existence condition a regex tree implies (nil = none).
func regexFieldGuard(e *bs.RegexExpression) *bs.BloomExpression {
	if e == nil {
		return nil
	}
	switch e.ExpressionType {
	case bs.RegexExpressionCondition:
		if e.Condition == nil {
			return nil
		}
		f := bs.Field(e.Condition.Field)
		return &f
	case bs.RegexExpressionAnd:
		var kids []bs.BloomExpression
		for i := range e.Children {
			if g := regexFieldGuard(&e.Children[i]); g != nil {
				kids = append(kids, *g)
			}
		}
		if len(kids) == 0 {
			return nil
		}
		return &bs.BloomExpression{ExpressionType: bs.BloomExpressionAnd, Children: kids}
	case bs.RegexExpressionOr:
		var kids []bs.BloomExpression
		for i := range e.Children {
			g := regexFieldGuard(&e.Children[i])
			if g == nil {
				return nil // one branch implies nothing
			}
			kids = append(kids, *g)
		}
		if len(kids) == 0 {
			return nil
		}
		return &bs.BloomExpression{ExpressionType: bs.BloomExpressionOr, Children: kids}
	}
	return nil
}

func refBlockSatisfies(md *bs.DataBlockMetadata, e *bs.PrefilterExpression) bool {
	bm := refmodel.BlockMeta{Partition: md.PartitionID, MinMax: map[string][2]int64{}}
	for k, v := range md.MinMaxIndexes {
		bm.MinMax[k] = [2]int64{v.Min, v.Max}
	}
	missing := false
	return refmodel.BlockSatisfies(bm, e, &missing)
}

// prefilterWellFormed: only documented node and condition kinds, every condition complete
// (what the engine does with anything else is not defined).
func prefilterWellFormed(e *bs.PrefilterExpression) bool {
	if e == nil {
		return true
	}
	switch e.ExpressionType {
	case bs.PrefilterExpressionCondition:
		c := e.Condition
		if c == nil {
			return false
		}
		switch c.ConditionType {
		case bs.PrefilterConditionPartition:
			return c.PartitionCondition != nil && knownOp(string(c.PartitionCondition.Operator))
		case bs.PrefilterConditionMinMax:
			if c.MinMaxCondition == nil {
				return false
			}
			// the negative operators are evaluated conservatively on ranges by the engine (a block
			// whose range is exactly the excluded value is kept): "ruled out" is asserted only for
			// the operators whose range test is exact
			switch c.MinMaxCondition.Operator {
			case bs.OpNotEqual, bs.OpNotIn, bs.OpNotBetween:
				return false
			case bs.OpBetween:
				if c.MinMaxCondition.Min > c.MinMaxCondition.Max {
					return false // an inverted interval is degenerate: what the engine keeps for it is not asserted
				}
			}
			return knownOp(string(c.MinMaxCondition.Operator))
		}
		return false
	case bs.PrefilterExpressionAnd, bs.PrefilterExpressionOr:
		if len(e.Children) == 0 {
			return false
		}
		for i := range e.Children {
			if !prefilterWellFormed(&e.Children[i]) {
				return false
			}
		}
		return true
	}
	return false
}

func knownOp(op string) bool {
	switch op {
	case "EQ", "NE", "GT", "GTE", "LT", "LTE", "IN", "NOT_IN", "BETWEEN", "NOT_BETWEEN":
		return true
	}
	return false
}

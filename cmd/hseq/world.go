package main

import (
	"bytes"
	"context"
	"encoding/json"
	"fmt"
	"hash/crc32"
	"sort"
	"strings"
	"time"

	bs "github.com/danthegoodman1/bloomsearch"

	"verif/hstore"
	"verif/refmodel"
)

// StoredRow is the reference record of one ingested row.
type StoredRow struct {
	Row       map[string]any
	Raw       []byte
	Info      *refmodel.RowInfo
	Partition string
}

// World is a pair of in-memory stores plus the reference multiset of acknowledged rows.
type World struct {
	Data *hstore.MemData
	Meta MetaView
	Cfg  bs.BloomSearchEngineConfig
	Eng  *bs.BloomSearchEngine
	Rows []StoredRow
	Tok  refmodel.Tokenizer
	Part bs.PartitionFunc
}

func quietConfig() bs.BloomSearchEngineConfig {
	c := bs.DefaultBloomSearchEngineConfig()
	c.MaxBufferedTime = time.Hour
	c.MaxBufferedRows = 1 << 30
	c.MaxBufferedBytes = 1 << 30
	c.MaxRowGroupRows = 1 << 30
	c.MaxRowGroupBytes = 1 << 30
	return c
}

// MetaView is a MetaStore the harness can also inspect.
type MetaView interface {
	bs.MetaStore
	Pointers() []string
	Metadata(ptr string) (bs.FileMetadata, bool)
}

// shippedMeta is the library's own MemoryMetaStore, inspected through its public iterator
// (a nil prefilter yields everything).
type shippedMeta struct{ *bs.MemoryMetaStore }

func (s shippedMeta) all() map[string]bs.FileMetadata {
	m := map[string]bs.FileMetadata{}
	for f, err := range s.GetMaybeFilesForQuery(context.Background(), nil) {
		if err == nil {
			m[string(f.PointerBytes)] = f.Metadata
		}
	}
	return m
}

func (s shippedMeta) Pointers() []string {
	var out []string
	for p := range s.all() {
		out = append(out, p)
	}
	// MemData names files f1, f2, ...: creation order
	sort.Slice(out, func(i, j int) bool {
		if len(out[i]) != len(out[j]) {
			return len(out[i]) < len(out[j])
		}
		return out[i] < out[j]
	})
	return out
}

func (s shippedMeta) Metadata(ptr string) (bs.FileMetadata, bool) {
	md, ok := s.all()[ptr]
	return md, ok
}

func newWorld(cfg bs.BloomSearchEngineConfig, tok refmodel.Tokenizer) (*World, error) {
	return newWorldMeta(cfg, tok, hstore.NewMemMeta())
}

// newWorldShipped is newWorld over the library's MemoryMetaStore.
func newWorldShipped(cfg bs.BloomSearchEngineConfig, tok refmodel.Tokenizer) (*World, error) {
	return newWorldMeta(cfg, tok, shippedMeta{bs.NewMemoryMetaStore()})
}

// storedState is a digest of everything the stores hold (queries must leave it unchanged).
func (w *World) storedState() string {
	var sb strings.Builder
	for _, p := range w.Meta.Pointers() {
		md, _ := w.Meta.Metadata(p)
		md.BloomFilters = bs.BloomFilters{}
		b, _ := json.Marshal(md)
		data, _ := w.Data.Bytes(p)
		fmt.Fprintf(&sb, "%s %s %d:%x\n", p, b, len(data), crc32.ChecksumIEEE(data))
	}
	return sb.String()
}

func newWorldMeta(cfg bs.BloomSearchEngineConfig, tok refmodel.Tokenizer, meta MetaView) (*World, error) {
	w := &World{Data: hstore.NewMemData(), Meta: meta, Cfg: cfg, Tok: tok, Part: cfg.PartitionFunc}
	if tok == nil {
		w.Tok = refmodel.DefaultTokenizer
	}
	eng, err := bs.NewBloomSearchEngine(cfg, w.Meta, w.Data)
	if err != nil {
		return nil, err
	}
	w.Eng = eng
	eng.Start()
	return w, nil
}

// engineWith returns another engine over the same stores (different configuration).
func (w *World) engineWith(cfg bs.BloomSearchEngineConfig) (*bs.BloomSearchEngine, error) {
	return bs.NewBloomSearchEngine(cfg, w.Meta, w.Data)
}

func (w *World) Close() {
	ctx, cancel := context.WithTimeout(context.Background(), 10*time.Second)
	defer cancel()
	w.Eng.Stop(ctx)
}

func mkStored(row map[string]any, part bs.PartitionFunc) (StoredRow, error) {
	raw, err := json.Marshal(row)
	if err != nil {
		return StoredRow{}, err
	}
	info, err := refmodel.Analyze(raw)
	if err != nil {
		return StoredRow{}, fmt.Errorf("reference walker rejects %s: %v", raw, err)
	}
	p := ""
	if part != nil {
		p = part(row)
	}
	return StoredRow{Row: row, Raw: raw, Info: info, Partition: p}, nil
}

// Ingest sends one batch and waits for its answer; acknowledged rows join the reference.
func (w *World) Ingest(rows []map[string]any) error {
	done := make(chan error, 1)
	if err := w.Eng.IngestRows(context.Background(), rows, done); err != nil {
		return err
	}
	var err error
	select {
	case err = <-done:
	case <-time.After(30 * time.Second):
		return fmt.Errorf("ingest not answered within 30s")
	}
	_ = err
	return err
}

// IngestAsync sends a batch without waiting (it stays buffered until a flush).
func (w *World) IngestAsync(rows []map[string]any) (chan error, error) {
	done := make(chan error, 1)
	err := w.Eng.IngestRows(context.Background(), rows, done)
	return done, err
}

// Track adds rows to the reference multiset.
func (w *World) Track(rows []map[string]any) error {
	for _, r := range rows {
		sr, err := mkStored(r, w.Part)
		if err != nil {
			return err
		}
		w.Rows = append(w.Rows, sr)
	}
	return nil
}

// Put ingests a batch that is buffered, then flushes, and tracks it when acknowledged.
func (w *World) Put(rows []map[string]any) error {
	done, err := w.IngestAsync(rows)
	if err != nil {
		return err
	}
	if err := w.Eng.Flush(context.Background()); err != nil {
		return fmt.Errorf("flush: %w", err)
	}
	select {
	case err := <-done:
		if err != nil {
			return err
		}
	case <-time.After(30 * time.Second):
		return fmt.Errorf("batch not answered within 30s of Flush returning")
	}
	return w.Track(rows)
}

// QueryResult is the observable outcome of one query.
type QueryResult struct {
	Rows     []string // canonical JSON of returned rows, sorted
	Maps     []map[string]any
	Err      error
	QueryErr error // error returned by Query itself
	Stats    bs.QueryStats
}

func canonMap(m map[string]any) string {
	b, err := json.Marshal(m)
	if err != nil {
		return fmt.Sprintf("!unmarshalable:%v", err)
	}
	return string(b)
}

func runQuery(eng *bs.BloomSearchEngine, q *bs.Query) QueryResult {
	var qr QueryResult
	res, err := eng.Query(context.Background(), q)
	if err != nil {
		qr.QueryErr = err
		return qr
	}
	for res.Next() {
		m := res.Row()
		qr.Maps = append(qr.Maps, m)
		qr.Rows = append(qr.Rows, canonMap(m))
	}
	qr.Err = res.Err()
	qr.Stats = res.Stats()
	res.Close()
	sort.Strings(qr.Rows)
	return qr
}

func (w *World) Query(q *bs.Query) QueryResult { return runQuery(w.Eng, q) }

// BlockView is one stored block read back through the public helpers.
type BlockView struct {
	File  string
	Index int
	Meta  bs.DataBlockMetadata
	Canon []string // canonical JSON of its rows
	Raw   [][]byte
}

// Blocks reads every referenced block back through ReadDataBlockRowData.
func (w *World) Blocks() ([]BlockView, error) {
	var out []BlockView
	for _, ptr := range w.Meta.Pointers() {
		md, _ := w.Meta.Metadata(ptr)
		data, ok := w.Data.Bytes(ptr)
		if !ok {
			return nil, fmt.Errorf("referenced file %s missing from the data store", ptr)
		}
		for i := range md.DataBlocks {
			b := md.DataBlocks[i]
			rd, err := bs.ReadDataBlockRowData(bytes.NewReader(data), &b)
			if err != nil {
				return nil, fmt.Errorf("file %s block %d: %v", ptr, i, err)
			}
			bv := BlockView{File: ptr, Index: i, Meta: b}
			sc := bs.NewBlockRowScanner(rd)
			for {
				rb, ok, err := sc.Next()
				if err != nil {
					return nil, fmt.Errorf("file %s block %d scan: %v", ptr, i, err)
				}
				if !ok {
					break
				}
				bv.Raw = append(bv.Raw, append([]byte(nil), rb...))
				info, err := refmodel.Analyze(rb)
				if err != nil {
					return nil, fmt.Errorf("file %s block %d row %q: %v", ptr, i, rb, err)
				}
				bv.Canon = append(bv.Canon, info.Canon)
			}
			out = append(out, bv)
		}
	}
	return out, nil
}

// multiset helpers
func countOf(xs []string) map[string]int {
	m := map[string]int{}
	for _, x := range xs {
		m[x]++
	}
	return m
}

func diffMultiset(got, want []string) (missing, extra []string) {
	g, w := countOf(got), countOf(want)
	for k, n := range w {
		for i := g[k]; i < n; i++ {
			missing = append(missing, k)
		}
	}
	for k, n := range g {
		for i := w[k]; i < n; i++ {
			extra = append(extra, k)
		}
	}
	sort.Strings(missing)
	sort.Strings(extra)
	return
}

func short(xs []string, n int) string {
	if len(xs) > n {
		return strings.Join(xs[:n], " | ") + fmt.Sprintf(" …(+%d)", len(xs)-n)
	}
	return strings.Join(xs, " | ")
}

func describeQuery(q *bs.Query) string {
	b, _ := json.Marshal(q)
	return string(b)
}

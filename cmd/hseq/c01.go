package main

import (
	"strings"
	"fmt"
	"math"
	"time"

	bs "github.com/danthegoodman1/bloomsearch"

	"verif/refmodel"
)

func sweepCases(tier string, o sweepOpts) []Case {
	var cs []Case
	toks := tokenizers()
	lays := layoutsFor(tier)
	for ti, tk := range toks {
		for li, lay := range lays {
			if tier == "quick" && ti > 0 && li != ti%len(lays) {
				continue // quick: custom tokenizers on one layout each
			}
			tk, lay := tk, lay
			cs = append(cs, Case{ID: "sweep/" + tk.name + "/" + lay.name, Run: func() CaseResult { return sweepCase(tk, lay, o) }})
		}
	}
	for v := 0; v < prefilterVariants(tier); v++ {
		v := v
		cs = append(cs, Case{ID: fmt.Sprintf("prefilter/%d", v), Run: func() CaseResult { return prefilterCase(v, o) }})
	}
	if o.c24 || o.c23 {
		cs = append(cs, Case{ID: "no-leaf-trees", Run: func() CaseResult { return noLeafCase(o) }})
	}
	if o.c01 || o.c02 {
		cs = append(cs, Case{ID: "tokenizer/all-runes", Run: func() CaseResult { return allRunesCase() }})
		for li, lay := range lays {
			if tier == "quick" && li != 0 && lay.name != "chunks50-zstd-merged" {
				continue
			}
			lay := lay
			cs = append(cs, Case{ID: "sweep-unicode/" + lay.name, Run: func() CaseResult { return sweepCaseRows(toks[0], lay, o, unicodeRows()) }})
		}
		cs = append(cs, Case{ID: "trees/truth-table", Run: func() CaseResult { return treeCase(o) }})
		cs = append(cs, Case{ID: "batch-boundaries", Run: func() CaseResult { return batchBoundaryCase(o) }})
		cs = append(cs, Case{ID: "merge-shapes/pairs", Run: func() CaseResult { return mergeShapeCase(o, false) }})
		if tier == "thorough" {
			cs = append(cs, Case{ID: "merge-shapes/triples", Run: func() CaseResult { return mergeShapeCase(o, true) }})
		}
	}
	return cs
}

func init() {
	modes["C01"] = ModeSpec{
		Cases: func(t string) []Case { return sweepCases(t, sweepOpts{c01: true}) },
		Rule:  "every (row, atomic condition) pair of the row/condition alphabets on every layout (flush splits, partitions, compressions, rates, merges, external writer), AND/OR trees over a truth-table corpus, prefilter trees over a numeric/partition corpus; every ordered pair (thorough: triples) of minmax interval shapes x file size assignments merged and queried with every threshold prefilter; a case is non-trivial when the query returns at least one row; oracle: independent encoding/json walker (T1) + unpruned-layout differential (T2)",
	}
	modes["C02"] = ModeSpec{
		Cases: func(t string) []Case { return sweepCases(t, sweepOpts{c02: true}) },
		Rule:  "same enumeration as C01; oracle: returned multiset ⊆ stored, every returned row satisfies bloom∧regex by the reference, equality without prefilter, whole-block union rule with prefilter",
	}
	modes["C23"] = ModeSpec{
		Cases: func(t string) []Case { return append(sweepCases(t, sweepOpts{c23: true}), c23FaultCases(t)...) },
		Rule:  "every query of the C01 enumeration (all completing without error); per-block accounting rules on Results.Stats against the blocks read back through the public helpers; plus, for 10 queries x {external-writer (absent/partial/reordered/padded filter sections), partitioned flush, uncompressed merged} layouts x MaxQueryConcurrency {1,4}, a failure injected at every DataStore call position the query makes (k-th OpenFile/Seek/Read of each file, once or from then on): at-most-once, all-or-none per file, processed sources of returned rows and zero counts for skipped blocks are asserted for every such run; non-trivial fault run = the injected failure was reached",
	}
	modes["C24"] = ModeSpec{
		Cases: func(t string) []Case { return sweepCases(t, sweepOpts{c24: true}) },
		Rule:  "every query of the C01 enumeration with a recording DataStore; expected pruning computed from the stored file/block filters and the public prefilter evaluator",
	}
}

// ---- prefilter corpus -----------------------------------------------------------------

type dur = time.Duration

func prefilterRows() []map[string]any {
	vals := []any{
		-2, -1, 0, 1, 2, int64(math.MaxInt64), int64(math.MinInt64), uint64(math.MaxUint64), uint8(200), int8(-128),
		0.5, 1.5, -0.5, float32(2.5), 1e19, -1e19, float64(1 << 53), 1.0,
		"notnum", nil, true,
	}
	parts := []string{"pa", "pb", ""}
	var rows []map[string]any
	id := 0
	for i, v := range vals {
		r := map[string]any{"id": id, "p": parts[i%3], "t": []string{"x", "y"}[i%2]}
		if v != nil || i%2 == 0 {
			r["n"] = v
		}
		if i%4 == 0 {
			r["m"] = i
		}
		rows = append(rows, r)
		id++
	}
	rows = append(rows, map[string]any{"id": id, "p": "pa", "t": "x"}) // no n at all
	return rows
}

func numConds() []bs.NumericCondition {
	var cs []bs.NumericCondition
	for _, v := range []int64{-1, 0, 1, 2, math.MaxInt64, math.MinInt64} {
		cs = append(cs, bs.NumericEquals(v), bs.NumericNotEquals(v), bs.NumericGreaterThan(v), bs.NumericGreaterThanEqual(v), bs.NumericLessThan(v), bs.NumericLessThanEqual(v))
	}
	cs = append(cs, bs.NumericIn(), bs.NumericIn(1), bs.NumericIn(0, 2), bs.NumericNotIn(), bs.NumericNotIn(1), bs.NumericNotIn(0, 1),
		bs.NumericBetween(0, 1), bs.NumericBetween(1, 0), bs.NumericBetween(math.MinInt64, -1), bs.NumericBetween(2, math.MaxInt64),
		bs.NumericNotBetween(0, 1), bs.NumericNotBetween(1, 0), bs.NumericNotBetween(math.MinInt64, math.MaxInt64),
		bs.NumericCondition{Operator: "LIKE", Value: 1})
	// lists as a caller may write them in a struct literal or receive them from JSON: any
	// order, repeats, more than two values
	in, notIn := bs.NumericIn(0).Operator, bs.NumericNotIn(0).Operator
	for _, vs := range [][]int64{{2, 0}, {5, 1, -1}, {math.MaxInt64, 0, math.MinInt64}, {1, 1, 0}, {9, 2, 5, -2}} {
		cs = append(cs, bs.NumericCondition{Operator: in, Values: vs}, bs.NumericCondition{Operator: notIn, Values: vs})
	}
	return cs
}

func strConds() []bs.StringCondition {
	return []bs.StringCondition{
		bs.PartitionEquals("pa"), bs.PartitionNotEquals("pa"), bs.PartitionIn("pa", "pb"), bs.PartitionIn(), bs.PartitionNotIn("pb"),
		bs.PartitionGreaterThan("pa"), bs.PartitionGreaterThanEqual("pb"), bs.PartitionLessThan("pb"), bs.PartitionLessThanEqual("pa"),
		bs.PartitionBetween("pa", "pb"), bs.PartitionBetween("pb", "pa"), bs.PartitionNotBetween("pa", "pa"), bs.PartitionEquals(""),
		{Operator: bs.PartitionIn("x").Operator, Values: []string{"pb", "zz", "pa", ""}}, {Operator: bs.PartitionNotIn("x").Operator, Values: []string{"pb", "", "pa"}},
		{Operator: "LIKE", Value: "pa"},
	}
}

func prefilterExprs() []*bs.PrefilterExpression {
	var leaves []bs.PrefilterExpression
	for _, c := range numConds() {
		leaves = append(leaves, bs.MinMax("n", c))
	}
	leaves = append(leaves, bs.MinMax("m", bs.NumericGreaterThanEqual(0)), bs.MinMax("zz", bs.NumericEquals(0)), bs.MinMax("t", bs.NumericEquals(0)))
	for _, c := range strConds() {
		leaves = append(leaves, bs.Partition(c))
	}
	leaves = append(leaves,
		bs.PrefilterExpression{ExpressionType: bs.PrefilterExpressionCondition},
		bs.PrefilterExpression{ExpressionType: bs.PrefilterExpressionCondition, Condition: &bs.PrefilterCondition{ConditionType: "ODD"}},
		bs.PrefilterExpression{ExpressionType: bs.PrefilterExpressionCondition, Condition: &bs.PrefilterCondition{ConditionType: bs.PrefilterConditionMinMax, MinMaxFieldName: "n"}},
		bs.PrefilterExpression{ExpressionType: bs.PrefilterExpressionCondition, Condition: &bs.PrefilterCondition{ConditionType: bs.PrefilterConditionPartition}},
		bs.PrefilterExpression{ExpressionType: bs.PrefilterExpressionAnd},
		bs.PrefilterExpression{ExpressionType: bs.PrefilterExpressionOr},
		bs.PrefilterExpression{ExpressionType: "NAND"},
	)
	var out []*bs.PrefilterExpression
	out = append(out, nil)
	for i := range leaves {
		out = append(out, &leaves[i])
	}
	// depth-2 trees over a reduced leaf set
	red := []bs.PrefilterExpression{
		bs.MinMax("n", bs.NumericGreaterThan(0)), bs.MinMax("n", bs.NumericLessThanEqual(0)), bs.MinMax("m", bs.NumericGreaterThanEqual(4)),
		bs.Partition(bs.PartitionEquals("pa")), bs.Partition(bs.PartitionNotEquals("pa")), bs.MinMax("zz", bs.NumericEquals(0)),
		{ExpressionType: bs.PrefilterExpressionOr},
	}
	for i := range red {
		for j := range red {
			a := bs.PrefilterAnd(red[i], red[j])
			o := bs.PrefilterOr(red[i], red[j])
			out = append(out, &a, &o)
			for k := 0; k < len(red); k += 2 {
				x := bs.PrefilterOr(bs.PrefilterAnd(red[i], red[j]), red[k])
				y := bs.PrefilterAnd(bs.PrefilterOr(red[i], red[j]), red[k])
				out = append(out, &x, &y)
			}
		}
	}
	return out
}

func prefilterVariants(tier string) int {
	if tier == "quick" {
		return 3
	}
	return 8
}

func prefilterCase(variant int, o sweepOpts) CaseResult {
	var res CaseResult
	cfg := quietConfig()
	cfg.RowDataCompression = bs.CompressionNone
	cfg.BloomFalsePositiveRate = 0.01
	cfg.MinMaxIndexes = []string{"n", "m"}
	cfg.PartitionFunc = func(r map[string]any) string { s, _ := r["p"].(string); return s }
	chunk := []int{1, 3, 100, 2, 5, 100, 4, 7}[variant]
	merge := variant >= 3
	if variant == 5 {
		cfg.MinMaxIndexes = []string{"n"}
	}
	if variant == 6 {
		cfg.PartitionFunc = nil
	}
	if variant == 7 {
		cfg.RowDataCompression = bs.CompressionZstd
		cfg.MaxRowGroupRows = 3
	}
	indexed := map[string]bool{}
	for _, k := range cfg.MinMaxIndexes {
		indexed[k] = true
	}
	// odd variants run over the library's own MemoryMetaStore (it keeps file metadata in
	// memory across queries), even ones over the harness store
	mk := newWorld
	if variant%2 == 1 || variant == 2 {
		mk = newWorldShipped
	}
	w, err := mk(cfg, nil)
	if err != nil {
		res.Findings = append(res.Findings, fnd("setup", "%v", err))
		return res
	}
	defer w.Close()
	rows := prefilterRows()
	if err := putChunks(w, rows, chunk); err != nil {
		res.Findings = append(res.Findings, fnd("setup-ingest", "prefilter corpus ingest: %v", err))
		return res
	}
	if merge {
		mc := cfg
		mc.MaxFilesToMergePerOperation = 3
		mc.MaxRowGroupRows = 6
		other, err := w.engineWith(mc)
		if err == nil {
			err = mergeAll(w, other, 4)
		}
		if err != nil {
			res.Findings = append(res.Findings, fnd("setup-merge", "prefilter corpus merge: %v", err))
			return res
		}
	}
	si, err := indexWorld(w)
	if err != nil {
		res.Findings = append(res.Findings, fnd("layout-readback", "%v", err))
		return res
	}
	var iol *ioLog
	var ff, bf map[string]bs.BloomFilters
	if o.c24 {
		ff, bf, err = loadFilters(w)
		if err != nil {
			res.Findings = append(res.Findings, fnd("layout-filters", "%v", err))
			return res
		}
		iol = attachIOLog(w.Data)
	}
	tx := bs.Token("x")
	blooms := []*bs.BloomExpression{nil, &tx}
	outcomes := map[string]bool{}
	state0 := w.storedState()
	probe := newProbes(w, prefilterExprs())
	for pi, pe := range prefilterExprs() {
		for bi, be := range blooms {
			q := &bs.Query{Prefilter: &bs.QueryPrefilter{Expression: pe}}
			if pe == nil && pi == 0 {
				q.Prefilter = nil
			}
			if be != nil {
				q.Bloom = &bs.BloomQuery{Expression: be}
			}
			name := fmt.Sprintf("[prefilter/%d #%d.%d %s]", variant, pi, bi, describeQuery(q))
			if iol != nil {
				iol.reset()
			}
			qr := w.Query(q)
			res.Evals++
			if qr.QueryErr != nil || qr.Err != nil {
				res.Findings = append(res.Findings, fnd("query-error", "%s: query failed on healthy stores: %v %v", name, qr.QueryErr, qr.Err))
				continue
			}
			got := countOf(qr.Rows)
			if len(qr.Rows) > 0 {
				res.Nontrivial++
			}
			outcomes[fmt.Sprint(len(qr.Rows))] = true
			if o.c01 {
				for i := range w.Rows {
					r := &w.Rows[i]
					if refmodel.RowSatisfiesPrefilter(r.Row, r.Partition, indexed, pe) && refmodel.MatchQuery(r.Info, q, w.Tok) && got[r.Info.Canon] == 0 {
						res.Findings = append(res.Findings, fnd("c01-prefilter-missing", "C01 %s: row %s satisfies the prefilter with its own partition/values and matches, but was not returned", name, r.Info.Canon))
					}
				}
			}
			if o.c02 {
				checkBlockGranular(name, qr, si, w, q, &res.Findings)
				// a query is read-only: what the stores hold (and hence every later answer)
				// must be what they held before it ran
				if now := w.storedState(); now != state0 {
					// decided on answers, not on representation: the probe queries must still
					// return what they returned before any query ran
					if d := probe.differs(w); d != "" {
						res.Findings = append(res.Findings, fnd("c02-query-changed-later-answers", "C02 %s: after this query a later query answers differently than before it (%s); stored state changed: %s", name, d, firstDiffLine(state0, now)))
						return res
					}
					state0 = now
				}
			}
			if o.c23 {
				checkStats(name, qr, si, q, &res.Findings)
			}
			if o.c24 {
				checkIO(name, iol, w, si, q, ff, bf, &res.Findings)
			}
			if len(res.Findings) > 30 {
				return res
			}
		}
	}
	for k := range outcomes {
		res.Outcomes = append(res.Outcomes, k)
	}
	res.Sample = map[string]any{"variant": variant, "chunk": chunk, "merged": merge, "blocks": len(si.blocks), "prefilters": len(prefilterExprs())}
	return res
}

// checkBlockGranular: with a prefilter the result must be the matching rows of a union of
// whole blocks containing every block whose metadata satisfies the prefilter and no block
// that lacks metadata a condition references.
func checkBlockGranular(name string, qr QueryResult, si *storeIndex, w *World, q *bs.Query, out *[]Finding) {
	got := countOf(qr.Rows)
	info := map[string]*refmodel.RowInfo{}
	for i := range w.Rows {
		info[w.Rows[i].Info.Canon] = w.Rows[i].Info
	}
	accounted := map[string]int{}
	var pe *bs.PrefilterExpression
	if q.Prefilter != nil {
		pe = q.Prefilter.Expression
	}
	for i := range si.blocks {
		b := &si.blocks[i]
		bm := refmodel.BlockMeta{Partition: b.Meta.PartitionID, MinMax: map[string][2]int64{}}
		for k, v := range b.Meta.MinMaxIndexes {
			bm.MinMax[k] = [2]int64{v.Min, v.Max}
		}
		missing := false
		must := refmodel.BlockSatisfies(bm, pe, &missing)
		matching, returned := 0, 0
		for _, c := range b.Canon {
			ri := info[c]
			if ri == nil || !refmodel.MatchQuery(ri, q, w.Tok) {
				continue
			}
			matching++
			if got[c] > 0 {
				returned++
				accounted[c]++
			}
		}
		k := fmt.Sprintf("%s@%d", b.File, b.Meta.RowDataOffset)
		switch {
		case returned != 0 && returned != matching:
			*out = append(*out, fnd("c02-partial-block", "C02 %s: block %s contributes %d of its %d matching rows (blocks are all-or-nothing)", name, k, returned, matching))
		case must && returned != matching:
			*out = append(*out, fnd("c02-block-dropped", "C02 %s: block %s satisfies the prefilter by its metadata but its %d matching rows were not returned", name, k, matching))
		case !must && missing && returned > 0:
			*out = append(*out, fnd("c02-missing-metadata-block", "C02 %s: block %s lacks metadata a condition references yet contributed rows", name, k))
		}
	}
	for c, n := range got {
		if n > si.stored[c] {
			*out = append(*out, fnd("c02-not-stored", "C02 %s: row %s returned %d times, stored %d times", name, c, n, si.stored[c]))
		}
		if accounted[c] == 0 {
			*out = append(*out, fnd("c02-nonmatching-row", "C02 %s: returned row %s does not match the bloom/regex expression by the reference (or is not stored)", name, c))
		}
	}
}

// ---- AND/OR trees over the truth-table corpus -----------------------------------------

func bloomTrees(depth2 bool) []*bs.BloomExpression {
	leaves := bloomLeaves()
	var out []*bs.BloomExpression
	out = append(out, nil)
	for i := range leaves {
		out = append(out, &leaves[i])
	}
	var d1 []bs.BloomExpression
	for i := range leaves {
		a, o := bs.And(leaves[i]), bs.Or(leaves[i])
		d1 = append(d1, a, o)
		for j := range leaves {
			a, o := bs.And(leaves[i], leaves[j]), bs.Or(leaves[i], leaves[j])
			d1 = append(d1, a, o)
		}
	}
	for i := range d1 {
		out = append(out, &d1[i])
	}
	if depth2 {
		for i := 0; i < len(d1); i += 3 {
			for j := range leaves {
				// raw nesting (no flattening) and constructor nesting (flattening)
				a := bs.BloomExpression{ExpressionType: bs.BloomExpressionAnd, Children: []bs.BloomExpression{d1[i], leaves[j]}}
				o := bs.BloomExpression{ExpressionType: bs.BloomExpressionOr, Children: []bs.BloomExpression{leaves[j], d1[i]}}
				ca, co := bs.And(d1[i], leaves[j]), bs.Or(leaves[j], d1[i])
				out = append(out, &a, &o, &ca, &co)
			}
		}
	}
	return out
}

func regexTrees() []*bs.RegexExpression {
	leaves := regexLeaves()
	var out []*bs.RegexExpression
	out = append(out, nil)
	for i := range leaves {
		out = append(out, &leaves[i])
	}
	for i := range leaves {
		for j := range leaves {
			a, o := bs.RegexAnd(leaves[i], leaves[j]), bs.RegexOr(leaves[i], leaves[j])
			out = append(out, &a, &o)
		}
		a, o := bs.RegexAnd(leaves[i]), bs.RegexOr(leaves[i])
		out = append(out, &a, &o)
	}
	bad := bs.FieldRegex("a", "(")
	unk := bs.RegexExpression{ExpressionType: "NOR", Children: []bs.RegexExpression{leaves[0]}}
	out = append(out, &bad, &unk)
	return out
}

// regexTreesDeep: depth-2 trees over five real leaves, two of them on the same field — every
// ordered triple in the four shapes And(x, Or(y, z)), Or(And(x, z), y), Or(x, And(y, z)),
// And(Or(x, y), z). The bloom guard derived from such a tree must keep its boolean shape; with
// one row per file most files lack the other fields.
func regexTreesDeep() []*bs.RegexExpression {
	l := []bs.RegexExpression{bs.FieldRegex("c", "^z"), bs.FieldRegex("a", "1"), bs.FieldRegex("c", "1$"), bs.FieldRegex("t", "x"), bs.FieldRegex("b", "^y")}
	var out []*bs.RegexExpression
	for i := range l {
		for j := range l {
			for k := range l {
				t1 := bs.RegexAnd(l[i], bs.RegexOr(l[j], l[k]))
				t2 := bs.RegexOr(bs.RegexAnd(l[i], l[k]), l[j])
				t3 := bs.RegexOr(l[i], bs.RegexAnd(l[j], l[k]))
				t4 := bs.RegexAnd(bs.RegexOr(l[i], l[j]), l[k])
				out = append(out, &t1, &t2, &t3, &t4)
			}
		}
	}
	return out
}

func treeCase(o sweepOpts) CaseResult {
	var res CaseResult
	for _, variant := range []int{0, 1} {
		cfg := quietConfig()
		cfg.RowDataCompression = bs.CompressionNone
		cfg.BloomFalsePositiveRate = []float64{0.999, 1e-4}[variant]
		w, err := newWorld(cfg, nil)
		if err != nil {
			res.Findings = append(res.Findings, fnd("setup", "%v", err))
			return res
		}
		rows := truthCorpus()
		if err := putChunks(w, rows, []int{16, 1}[variant]); err != nil {
			res.Findings = append(res.Findings, fnd("setup-ingest", "%v", err))
			w.Close()
			return res
		}
		bts := bloomTrees(true)
		rts := regexTrees()
		run := func(be *bs.BloomExpression, re *bs.RegexExpression) {
			q := &bs.Query{}
			if be != nil {
				q.Bloom = &bs.BloomQuery{Expression: be}
			}
			if re != nil {
				q.Regex = &bs.RegexQuery{Expression: re}
			}
			if refmodel.RegexTreeUndefined(re) {
				return
			}
			res.Evals++
			qr := w.Query(q)
			name := fmt.Sprintf("[trees/%d %s]", variant, describeQuery(q))
			if qr.QueryErr != nil {
				if re != nil && refmodel.RegexCompileError(re) {
					return // documented fail-fast
				}
				res.Findings = append(res.Findings, fnd("tree-query-error", "%s: Query returned %v", name, qr.QueryErr))
				return
			}
			if qr.Err != nil {
				res.Findings = append(res.Findings, fnd("query-error", "%s: %v", name, qr.Err))
				return
			}
			got := countOf(qr.Rows)
			if len(qr.Rows) > 0 && len(qr.Rows) < 16 {
				res.Nontrivial++
			}
			for i := range w.Rows {
				r := &w.Rows[i]
				m := refmodel.MatchQuery(r.Info, q, w.Tok)
				if o.c01 && m && got[r.Info.Canon] == 0 {
					res.Findings = append(res.Findings, fnd("c01-tree-missing", "C01 %s: row %s matches the tree by the documented semantics but was not returned", name, r.Info.Canon))
				}
				if o.c02 && m && got[r.Info.Canon] == 0 {
					res.Findings = append(res.Findings, fnd("c02-tree-missing", "C02 %s: no prefilter, so the answer must equal the matching stored rows, but row %s was not returned", name, r.Info.Canon))
				}
				if o.c02 && !m && got[r.Info.Canon] > 0 {
					res.Findings = append(res.Findings, fnd("c02-tree-extra", "C02 %s: row %s does not match the tree by the documented semantics but was returned", name, r.Info.Canon))
				}
			}
		}
		for _, be := range bts {
			run(be, nil)
		}
		for _, re := range rts {
			run(nil, re)
		}
		for _, re := range regexTreesDeep() {
			run(nil, re)
		}
		for i := 0; i < len(bts); i += 7 {
			for _, re := range rts {
				run(bts[i], re)
			}
		}
		w.Close()
		if len(res.Findings) > 30 {
			break
		}
	}
	res.Sample = map[string]any{"bloom_trees": len(bloomTrees(true)), "regex_trees": len(regexTrees())}
	return res
}

// batchBoundaryCase: 63/64/65/129 matching rows in one block (rowBatcher hand-offs) and
// duplicates, answered exactly.
func batchBoundaryCase(o sweepOpts) CaseResult {
	var res CaseResult
	for _, n := range []int{1, 63, 64, 65, 128, 129, 200} {
		cfg := quietConfig()
		cfg.RowDataCompression = bs.CompressionSnappy
		cfg.BloomFalsePositiveRate = 0.5
		w, err := newWorld(cfg, nil)
		if err != nil {
			res.Findings = append(res.Findings, fnd("setup", "%v", err))
			return res
		}
		var rows []map[string]any
		for i := 0; i < n; i++ {
			rows = append(rows, map[string]any{"k": "hit", "i": i % 5}) // duplicates on purpose
			if i%3 == 0 {
				rows = append(rows, map[string]any{"k": "miss", "i": i})
			}
		}
		if err := w.Put(rows); err != nil {
			res.Findings = append(res.Findings, fnd("setup-ingest", "%v", err))
			w.Close()
			return res
		}
		q := bs.NewQuery().FieldToken("k", "hit").Build()
		qr := w.Query(q)
		res.Evals++
		res.Nontrivial++
		var want []string
		for i := range w.Rows {
			if refmodel.MatchQuery(w.Rows[i].Info, q, w.Tok) {
				want = append(want, w.Rows[i].Info.Canon)
			}
		}
		miss, extra := diffMultiset(qr.Rows, want)
		if qr.Err != nil || qr.QueryErr != nil {
			res.Findings = append(res.Findings, fnd("query-error", "batch boundary n=%d: %v %v", n, qr.QueryErr, qr.Err))
		}
		if o.c01 && len(miss) > 0 {
			res.Findings = append(res.Findings, fnd("c01-batch-missing", "C01 batch boundary n=%d: %d matching rows missing: %s", n, len(miss), short(miss, 3)))
		}
		if o.c02 && len(extra) > 0 {
			res.Findings = append(res.Findings, fnd("c02-batch-extra", "C02 batch boundary n=%d: %d rows returned too often: %s", n, len(extra), short(extra, 3)))
		}
		w.Close()
	}
	return res
}

func firstDiffLine(a, b string) string {
	la, lb := strings.Split(a, "\n"), strings.Split(b, "\n")
	for i := 0; i < len(la) || i < len(lb); i++ {
		x, y := "", ""
		if i < len(la) {
			x = la[i]
		}
		if i < len(lb) {
			y = lb[i]
		}
		if x != y {
			if len(x) > 600 {
				x = x[:600] + "…"
			}
			if len(y) > 600 {
				y = y[:600] + "…"
			}
			return fmt.Sprintf("before: %s | after: %s", x, y)
		}
	}
	return "(no line differs)"
}

// probes: a fixed set of queries with the answers they gave before a sweep started.
type probes struct {
	qs   []*bs.Query
	want [][]string
}

func newProbes(w *World, pes []*bs.PrefilterExpression) *probes {
	p := &probes{}
	tx := bs.Token("x")
	p.qs = append(p.qs, &bs.Query{}, &bs.Query{Bloom: &bs.BloomQuery{Expression: &tx}})
	for i, pe := range pes {
		if pe != nil && i%5 == 1 {
			p.qs = append(p.qs, &bs.Query{Prefilter: &bs.QueryPrefilter{Expression: pe}})
		}
	}
	for _, q := range p.qs {
		p.want = append(p.want, w.Query(q).Rows)
	}
	return p
}

func (p *probes) differs(w *World) string {
	for i, q := range p.qs {
		qr := w.Query(q)
		if qr.Err != nil || qr.QueryErr != nil {
			return fmt.Sprintf("%s now fails: %v %v", describeQuery(q), qr.QueryErr, qr.Err)
		}
		if miss, extra := diffMultiset(qr.Rows, p.want[i]); len(miss)+len(extra) > 0 {
			return fmt.Sprintf("%s: now missing %s; now extra %s", describeQuery(q), short(miss, 3), short(extra, 3))
		}
	}
	return ""
}

// ---- merged ranges: every ordered pair / triple of interval shapes -----------------------
//
// Files whose blocks carry minmax ranges from a small interval alphabet are merged in every
// order the engine can choose (file size decides the merge order, so each shape is written
// small and large); afterwards every threshold prefilter must still return every row whose
// own value satisfies it (C01) and nothing outside the whole-block rule (C02).

func mergeShapeCase(o sweepOpts, triples bool) CaseResult {
	var res CaseResult
	intervals := [][2]int{{5, 5}, {0, 10}, {3, 7}, {0, 5}, {5, 10}, {20, 30}, {-4, 4}}
	mkRows := func(id string, iv [2]int, big bool) []map[string]any {
		rows := []map[string]any{{"id": id + "lo", "n": iv[0], "t": "x"}, {"id": id + "hi", "n": iv[1], "t": "x"}}
		if big {
			for k := 0; k < 6; k++ {
				rows = append(rows, map[string]any{"id": fmt.Sprintf("%sf%d", id, k), "n": (iv[0] + iv[1]) / 2, "t": "filler filler filler filler"})
			}
		}
		return rows
	}
	thresholds := map[int]bool{}
	for _, iv := range intervals {
		for _, e := range iv {
			thresholds[e-1], thresholds[e], thresholds[e+1] = true, true, true
		}
	}
	outcomes := map[string]bool{}
	run := func(shape []int, bigMask int) {
		cfg := quietConfig()
		cfg.RowDataCompression = bs.CompressionNone
		cfg.BloomFalsePositiveRate = 0.01
		cfg.MinMaxIndexes = []string{"n"}
		cfg.MaxFilesToMergePerOperation = 8
		w, err := newWorld(cfg, nil)
		if err != nil {
			res.Findings = append(res.Findings, fnd("setup", "%v", err))
			return
		}
		defer w.Close()
		name := ""
		for i, s := range shape {
			big := bigMask&(1<<i) != 0
			name += fmt.Sprintf("[%d,%d]%s ", intervals[s][0], intervals[s][1], map[bool]string{true: "L", false: "s"}[big])
			if err := w.Put(mkRows(fmt.Sprintf("f%d", i), intervals[s], big)); err != nil {
				res.Findings = append(res.Findings, fnd("setup-ingest", "%v", err))
				return
			}
		}
		if err := mergeAll(w, w.Eng, 3); err != nil {
			res.Findings = append(res.Findings, fnd("setup-merge", "merge shapes %s: %v", name, err))
			return
		}
		si, err := indexWorld(w)
		if err != nil {
			res.Findings = append(res.Findings, fnd("layout-readback", "%v", err))
			return
		}
		outcomes[fmt.Sprintf("%d blocks", len(si.blocks))] = true
		indexed := map[string]bool{"n": true}
		for t := range thresholds {
			for _, c := range []bs.NumericCondition{bs.NumericGreaterThan(int64(t)), bs.NumericLessThan(int64(t)), bs.NumericEquals(int64(t)), bs.NumericBetween(int64(t), int64(t+2))} {
				pe := bs.MinMax("n", c)
				q := &bs.Query{Prefilter: &bs.QueryPrefilter{Expression: &pe}}
				qr := w.Query(q)
				res.Evals++
				qn := fmt.Sprintf("[merge-shapes %s: %s]", name, describeQuery(q))
				if qr.Err != nil || qr.QueryErr != nil {
					res.Findings = append(res.Findings, fnd("query-error", "%s: %v %v", qn, qr.QueryErr, qr.Err))
					continue
				}
				got := countOf(qr.Rows)
				if len(qr.Rows) > 0 {
					res.Nontrivial++
				}
				if o.c01 {
					for i := range w.Rows {
						r := &w.Rows[i]
						if refmodel.RowSatisfiesPrefilter(r.Row, r.Partition, indexed, &pe) && got[r.Info.Canon] == 0 {
							res.Findings = append(res.Findings, fnd("c01-prefilter-missing-after-merge", "C01/C04 %s: row %s satisfies the prefilter with its own value but was not returned after the merge — its block was pruned (blocks: %s)", qn, r.Info.Canon, siBlockRanges(si)))
							break
						}
					}
				}
				if o.c02 {
					checkBlockGranular(qn, qr, si, w, q, &res.Findings)
				}
				if len(res.Findings) > 10 {
					return
				}
			}
		}
	}
	for a := range intervals {
		for b := range intervals {
			if !triples {
				for mask := 0; mask < 4; mask++ {
					run([]int{a, b}, mask)
				}
				continue
			}
			for c := range intervals {
				if (a+2*b+3*c)%3 != 0 {
					continue // a third of the triples, each in two size assignments
				}
				run([]int{a, b, c}, 1)
				run([]int{a, b, c}, 6)
			}
			if len(res.Findings) > 10 {
				return res
			}
		}
	}
	for k := range outcomes {
		res.Outcomes = append(res.Outcomes, k)
	}
	res.Sample = map[string]any{"intervals": intervals, "triples": triples}
	return res
}

func siBlockRanges(si *storeIndex) string {
	var parts []string
	for _, b := range si.blocks {
		parts = append(parts, fmt.Sprintf("%s@%d n=%v rows=%d", b.File, b.Meta.RowDataOffset, b.Meta.MinMaxIndexes["n"], len(b.Canon)))
	}
	return strings.Join(parts, "; ")
}

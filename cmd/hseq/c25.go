package main

import (
	"encoding/json"
	"math"
	"fmt"
	"reflect"

	bs "github.com/danthegoodman1/bloomsearch"

	"verif/refmodel"
)

// C25 — expression trees mean what they say (constructors incl. flattening, builder
// chains) and survive JSON round trips.

// A refTree is the nested combination as the caller wrote it.
type refTree struct {
	op       string // "leaf", "and", "or"
	leaf     int
	children []*refTree
}

func (t *refTree) String() string {
	if t.op == "leaf" {
		return fmt.Sprintf("L%d", t.leaf)
	}
	s := t.op + "("
	for i, c := range t.children {
		if i > 0 {
			s += ","
		}
		s += c.String()
	}
	return s + ")"
}

// enumerate nested trees up to depth with at most maxKids children per node
func enumTrees(nLeaves, depth, maxKids int, stride int) []*refTree {
	var level []*refTree
	for i := 0; i < nLeaves; i++ {
		level = append(level, &refTree{op: "leaf", leaf: i})
	}
	all := append([]*refTree{}, level...)
	pool := append([]*refTree{}, level...)
	for d := 1; d <= depth; d++ {
		var next []*refTree
		step := 1
		if d >= 2 {
			step = stride
		}
		for _, op := range []string{"and", "or"} {
			next = append(next, &refTree{op: op}) // no children
			for i := 0; i < len(pool); i += step {
				next = append(next, &refTree{op: op, children: []*refTree{pool[i]}})
				for j := 0; j < len(pool); j += step {
					next = append(next, &refTree{op: op, children: []*refTree{pool[i], pool[j]}})
					if maxKids >= 3 && d == 1 {
						for k := 0; k < len(pool); k++ {
							next = append(next, &refTree{op: op, children: []*refTree{pool[i], pool[j], pool[k]}})
						}
					}
				}
			}
		}
		all = append(all, next...)
		pool = append(pool, next...)
		if len(pool) > 400 {
			// keep the pool small and varied for the next level
			var p2 []*refTree
			for i := 0; i < len(pool); i += len(pool)/200 + 1 {
				p2 = append(p2, pool[i])
			}
			pool = p2
		}
	}
	return all
}

// ---- bloom -----------------------------------------------------------------------------

var c25BloomLeaves = []bs.BloomExpression{bs.Field("a"), bs.Token("x"), bs.FieldToken("b", "y"), bs.Field("c")}

func buildBloom(t *refTree) bs.BloomExpression {
	if t.op == "leaf" {
		return c25BloomLeaves[t.leaf]
	}
	kids := make([]bs.BloomExpression, len(t.children))
	for i, c := range t.children {
		kids[i] = buildBloom(c)
	}
	if t.op == "and" {
		return bs.And(kids...)
	}
	return bs.Or(kids...)
}

func evalRef(t *refTree, leafTruth func(i int) bool) bool {
	switch t.op {
	case "leaf":
		return leafTruth(t.leaf)
	case "and":
		for _, c := range t.children {
			if !evalRef(c, leafTruth) {
				return false
			}
		}
		return true
	default:
		for _, c := range t.children {
			if evalRef(c, leafTruth) {
				return true
			}
		}
		return false
	}
}

var c25RegexLeaves = []bs.RegexExpression{bs.FieldRegex("c", "^z"), bs.FieldRegex("a", "1"), bs.FieldRegex("t", "x|q")}

func buildRegex(t *refTree) bs.RegexExpression {
	if t.op == "leaf" {
		return c25RegexLeaves[t.leaf]
	}
	kids := make([]bs.RegexExpression, len(t.children))
	for i, c := range t.children {
		kids[i] = buildRegex(c)
	}
	if t.op == "and" {
		return bs.RegexAnd(kids...)
	}
	return bs.RegexOr(kids...)
}

var c25PreLeaves = []bs.PrefilterExpression{bs.MinMax("n", bs.NumericGreaterThan(0)), bs.Partition(bs.PartitionEquals("pa")), bs.MinMax("m", bs.NumericLessThan(3)), bs.Partition(bs.PartitionNotIn("pb"))}

func buildPre(t *refTree) bs.PrefilterExpression {
	if t.op == "leaf" {
		return c25PreLeaves[t.leaf]
	}
	kids := make([]bs.PrefilterExpression, len(t.children))
	for i, c := range t.children {
		kids[i] = buildPre(c)
	}
	if t.op == "and" {
		return bs.PrefilterAnd(kids...)
	}
	return bs.PrefilterOr(kids...)
}

// normalise nil vs empty slices / pointers-to-zero for structural comparison after JSON
func jsonShape(v any) string {
	b, _ := json.Marshal(v)
	var x any
	json.Unmarshal(b, &x)
	b2, _ := json.Marshal(x)
	return string(b2)
}

func c25World() (*World, error) {
	cfg := quietConfig()
	cfg.RowDataCompression = bs.CompressionNone
	cfg.BloomFalsePositiveRate = 0.01
	w, err := newWorld(cfg, nil)
	if err != nil {
		return nil, err
	}
	if err := putChunks(w, truthCorpus(), 4); err != nil {
		w.Close()
		return nil, err
	}
	return w, nil
}

func c25Bloom(tier string, shard, shards int) CaseResult {
	var res CaseResult
	w, err := c25World()
	if err != nil {
		res.Findings = append(res.Findings, fnd("setup", "%v", err))
		return res
	}
	defer w.Close()
	depth, stride := 2, 1
	if tier == "thorough" {
		depth, stride = 3, 7
	}
	trees := enumTrees(len(c25BloomLeaves), depth, 3, stride)
	for ti, t := range trees {
		if ti%shards != shard {
			continue
		}
		e := buildBloom(t)
		q := &bs.Query{Bloom: &bs.BloomQuery{Expression: &e}}
		res.Evals++
		qr := w.Query(q)
		if qr.Err != nil || qr.QueryErr != nil {
			res.Findings = append(res.Findings, fnd("query-error", "C25 bloom %s: %v %v", t, qr.QueryErr, qr.Err))
			continue
		}
		got := countOf(qr.Rows)
		n := 0
		for i := range w.Rows {
			r := &w.Rows[i]
			want := evalRef(t, func(l int) bool { return refmodel.MatchBloom(r.Info, &c25BloomLeaves[l], w.Tok) })
			if want {
				n++
			}
			if want != (got[r.Info.Canon] > 0) {
				res.Findings = append(res.Findings, fnd("c25-bloom-tree-meaning", "C25 bloom tree %s built through And/Or evaluates to %v on row %s, the nested combination as written is %v (constructed: %s)", t, got[r.Info.Canon] > 0, r.Info.Canon, want, jsonShape(e)))
				break
			}
		}
		if n > 0 && n < len(w.Rows) {
			res.Nontrivial++
		}
		// JSON round trip of the whole Query
		b, err := json.Marshal(q)
		var q2 bs.Query
		if err == nil {
			err = json.Unmarshal(b, &q2)
		}
		if err != nil {
			res.Findings = append(res.Findings, fnd("c25-json", "C25 bloom %s: JSON round trip failed: %v", t, err))
			continue
		}
		if jsonShape(q) != jsonShape(&q2) {
			res.Findings = append(res.Findings, fnd("c25-json-shape", "C25 bloom %s: JSON round trip changed the tree: %s vs %s", t, jsonShape(q), jsonShape(&q2)))
		}
		qr2 := w.Query(&q2)
		if !reflect.DeepEqual(qr.Rows, qr2.Rows) || qr2.Err != nil || qr2.QueryErr != nil {
			res.Findings = append(res.Findings, fnd("c25-json-results", "C25 bloom %s: results differ after a JSON round trip of the Query (%d vs %d rows, err %v %v)", t, len(qr.Rows), len(qr2.Rows), qr2.QueryErr, qr2.Err))
		}
		if len(res.Findings) > 20 {
			break
		}
	}
	res.Sample = map[string]any{"trees": len(trees), "example": trees[len(trees)/2].String()}
	return res
}

func c25Regex(tier string) CaseResult {
	var res CaseResult
	w, err := c25World()
	if err != nil {
		res.Findings = append(res.Findings, fnd("setup", "%v", err))
		return res
	}
	defer w.Close()
	trees := enumTrees(len(c25RegexLeaves), 2, 3, 1)
	for _, t := range trees {
		e := buildRegex(t)
		q := &bs.Query{Regex: &bs.RegexQuery{Expression: &e}}
		res.Evals++
		qr := w.Query(q)
		if qr.Err != nil || qr.QueryErr != nil {
			res.Findings = append(res.Findings, fnd("query-error", "C25 regex %s: %v %v", t, qr.QueryErr, qr.Err))
			continue
		}
		got := countOf(qr.Rows)
		n := 0
		for i := range w.Rows {
			r := &w.Rows[i]
			want := evalRef(t, func(l int) bool { return refmodel.MatchRegex(r.Info, &c25RegexLeaves[l]) })
			if want {
				n++
			}
			if want != (got[r.Info.Canon] > 0) {
				res.Findings = append(res.Findings, fnd("c25-regex-tree-meaning", "C25 regex tree %s built through RegexAnd/RegexOr evaluates to %v on row %s, the nested combination as written is %v", t, got[r.Info.Canon] > 0, r.Info.Canon, want))
				break
			}
		}
		if n > 0 && n < len(w.Rows) {
			res.Nontrivial++
		}
		b, _ := json.Marshal(q)
		var q2 bs.Query
		if err := json.Unmarshal(b, &q2); err != nil {
			res.Findings = append(res.Findings, fnd("c25-json", "C25 regex %s: %v", t, err))
			continue
		}
		qr2 := w.Query(&q2)
		if jsonShape(q) != jsonShape(&q2) || !reflect.DeepEqual(qr.Rows, qr2.Rows) {
			res.Findings = append(res.Findings, fnd("c25-json-results", "C25 regex %s: JSON round trip changed the tree or its results", t))
		}
		if len(res.Findings) > 20 {
			break
		}
	}
	res.Sample = map[string]any{"trees": len(trees)}
	return res
}

func c25Prefilter(tier string) CaseResult {
	var res CaseResult
	type blk struct {
		md  bs.DataBlockMetadata
		row map[string]any
	}
	var blocks []blk
	for _, p := range []string{"pa", "pb", ""} {
		for _, n := range []any{nil, int64(-1), int64(5)} {
			for _, m := range []any{nil, int64(2), int64(9)} {
				md := bs.DataBlockMetadata{PartitionID: p, MinMaxIndexes: map[string]bs.MinMaxIndex{}}
				row := map[string]any{}
				if n != nil {
					md.MinMaxIndexes["n"] = bs.MinMaxIndex{Min: n.(int64), Max: n.(int64)}
					row["n"] = n
				}
				if m != nil {
					md.MinMaxIndexes["m"] = bs.MinMaxIndex{Min: m.(int64), Max: m.(int64)}
					row["m"] = m
				}
				blocks = append(blocks, blk{md, row})
			}
		}
	}
	indexed := map[string]bool{"n": true, "m": true}
	trees := enumTrees(len(c25PreLeaves), 2, 3, 1)
	for _, t := range trees {
		e := buildPre(t)
		qp := &bs.QueryPrefilter{Expression: &e}
		b, _ := json.Marshal(qp)
		var qp2 bs.QueryPrefilter
		if err := json.Unmarshal(b, &qp2); err != nil {
			res.Findings = append(res.Findings, fnd("c25-json", "C25 prefilter %s: %v", t, err))
			continue
		}
		if jsonShape(qp) != jsonShape(&qp2) {
			res.Findings = append(res.Findings, fnd("c25-json-shape", "C25 prefilter %s: JSON round trip changed the tree", t))
		}
		nt := 0
		for bi := range blocks {
			res.Evals++
			// single-valued blocks: block-level truth = row-level truth of the nested combination
			want := evalRef(t, func(l int) bool {
				return refmodel.RowSatisfiesPrefilter(blocks[bi].row, blocks[bi].md.PartitionID, indexed, &c25PreLeaves[l])
			})
			if want {
				nt++
			}
			got := bs.EvaluateDataBlockMetadata(&blocks[bi].md, qp)
			got2 := bs.EvaluateDataBlockMetadata(&blocks[bi].md, &qp2)
			if got != want {
				res.Findings = append(res.Findings, fnd("c25-prefilter-tree-meaning", "C25 prefilter tree %s built through PrefilterAnd/Or evaluates to %v on block %v/%v, the nested combination as written is %v", t, got, blocks[bi].md.PartitionID, blocks[bi].md.MinMaxIndexes, want))
				break
			}
			if got != got2 {
				res.Findings = append(res.Findings, fnd("c25-json-results", "C25 prefilter %s: evaluation differs after a JSON round trip", t))
				break
			}
		}
		if nt > 0 && nt < len(blocks) {
			res.Nontrivial++
		}
		if len(res.Findings) > 20 {
			break
		}
	}
	res.Sample = map[string]any{"trees": len(trees), "blocks": len(blocks)}
	return res
}

// c25Builders: every builder call sequence of length <= 4 whose meaning is documented.
func c25Builders() CaseResult {
	var res CaseResult
	w, err := c25World()
	if err != nil {
		res.Findings = append(res.Findings, fnd("setup", "%v", err))
		return res
	}
	defer w.Close()
	type step struct {
		name  string
		apply func(b *bs.QueryBuilder)
		bloom *bs.BloomExpression // condition step
		match *bs.BloomExpression // Match step
		regex *bs.RegexExpression
		mre   *bs.RegexExpression
	}
	fa, tx, fby := bs.Field("a"), bs.Token("x"), bs.FieldToken("b", "y")
	orE := bs.Or(bs.Field("a"), bs.Token("x"))
	rz, ra := bs.FieldRegex("c", "^z"), bs.FieldRegex("a", "1")
	rOr := bs.RegexOr(bs.FieldRegex("c", "^z"), bs.FieldRegex("a", "1"))
	steps := []step{
		{name: "Field(a)", apply: func(b *bs.QueryBuilder) { b.Field("a") }, bloom: &fa},
		{name: "Token(x)", apply: func(b *bs.QueryBuilder) { b.Token("x") }, bloom: &tx},
		{name: "FieldToken(b,y)", apply: func(b *bs.QueryBuilder) { b.FieldToken("b", "y") }, bloom: &fby},
		{name: "Match(Or(a,x))", apply: func(b *bs.QueryBuilder) { b.Match(orE) }, match: &orE},
		{name: "FieldRegex(c,^z)", apply: func(b *bs.QueryBuilder) { b.FieldRegex("c", "^z") }, regex: &rz},
		{name: "FieldRegex(a,1)", apply: func(b *bs.QueryBuilder) { b.FieldRegex("a", "1") }, regex: &ra},
		{name: "MatchRegex(Or)", apply: func(b *bs.QueryBuilder) { b.MatchRegex(rOr) }, mre: &rOr},
	}
	var rec func(seq []int)
	run := func(seq []int) {
		// documented forms only: conditions chained (AND), Match first then conditions
		// (And(e, ...)); conditions before Match and repeated Match are not defined.
		var blooms, regexes []*bs.BloomExpression
		_ = regexes
		var bm *bs.BloomExpression
		var rm *bs.RegexExpression
		var rconds []*bs.RegexExpression
		seenCond, seenRCond := false, false
		for _, si := range seq {
			s := steps[si]
			switch {
			case s.bloom != nil:
				blooms = append(blooms, s.bloom)
				seenCond = true
			case s.match != nil:
				if bm != nil || seenCond {
					return
				}
				bm = s.match
			case s.regex != nil:
				rconds = append(rconds, s.regex)
				seenRCond = true
			case s.mre != nil:
				if rm != nil || seenRCond {
					return
				}
				rm = s.mre
			}
		}
		b := bs.NewQuery()
		name := ""
		for _, si := range seq {
			steps[si].apply(b)
			name += steps[si].name + "."
		}
		q := b.Build()
		res.Evals++
		qr := w.Query(q)
		if qr.Err != nil || qr.QueryErr != nil {
			res.Findings = append(res.Findings, fnd("query-error", "C25 builder %s: %v %v", name, qr.QueryErr, qr.Err))
			return
		}
		got := countOf(qr.Rows)
		n := 0
		for i := range w.Rows {
			r := &w.Rows[i]
			want := true
			if bm != nil && !refmodel.MatchBloom(r.Info, bm, w.Tok) {
				want = false
			}
			for _, c := range blooms {
				if !refmodel.MatchBloom(r.Info, c, w.Tok) {
					want = false
				}
			}
			if rm != nil && !refmodel.MatchRegex(r.Info, rm) {
				want = false
			}
			for _, c := range rconds {
				if !refmodel.MatchRegex(r.Info, c) {
					want = false
				}
			}
			if want {
				n++
			}
			if want != (got[r.Info.Canon] > 0) {
				res.Findings = append(res.Findings, fnd("c25-builder-meaning", "C25 builder chain %s returns=%v for row %s, the documented meaning (AND of everything chained) is %v", name, got[r.Info.Canon] > 0, r.Info.Canon, want))
				return
			}
		}
		if n > 0 && n < len(w.Rows) {
			res.Nontrivial++
		}
		bb, _ := json.Marshal(q)
		var q2 bs.Query
		if err := json.Unmarshal(bb, &q2); err != nil {
			res.Findings = append(res.Findings, fnd("c25-json", "C25 builder %s: %v", name, err))
			return
		}
		qr2 := w.Query(&q2)
		if !reflect.DeepEqual(qr.Rows, qr2.Rows) {
			res.Findings = append(res.Findings, fnd("c25-json-results", "C25 builder %s: results differ after a JSON round trip", name))
		}
	}
	rec = func(seq []int) {
		run(seq)
		if len(seq) == 4 || len(res.Findings) > 10 {
			return
		}
		for i := range steps {
			rec(append(append([]int{}, seq...), i))
		}
	}
	rec(nil)
	res.Sample = map[string]any{"steps": len(steps), "max_len": 4}
	return res
}

func init() {
	modes["C25"] = ModeSpec{
		Cases: func(tier string) []Case {
			var cs []Case
			sh := 8
			for s := 0; s < sh; s++ {
				s := s
				cs = append(cs, Case{ID: fmt.Sprintf("bloom-trees/%d", s), Run: func() CaseResult { return c25Bloom(tier, s, sh) }})
			}
			cs = append(cs, Case{ID: "regex-trees", Run: func() CaseResult { return c25Regex(tier) }})
			cs = append(cs, Case{ID: "prefilter-trees", Run: func() CaseResult { return c25Prefilter(tier) }})
			cs = append(cs, Case{ID: "builders", Run: c25Builders})
			cs = append(cs, Case{ID: "json-operands", Run: c25Operands})
			for s := 0; s < sh; s++ {
				s := s
				cs = append(cs, Case{ID: fmt.Sprintf("shared-bloom/%d", s), Run: func() CaseResult { return c25ShareBloom(tier, s, sh) }})
			}
			cs = append(cs, Case{ID: "shared-regex", Run: func() CaseResult { return c25ShareRegex(tier) }})
			cs = append(cs, Case{ID: "shared-prefilter", Run: func() CaseResult { return c25SharePrefilter(tier) }})
			cs = append(cs, Case{ID: "special-nodes", Run: func() CaseResult { return treeCase(sweepOpts{c01: true, c02: true}) }})
			return cs
		},
		Rule: "all nested AND/OR combinations (depth <= 2 quick / 3 thorough, <= 3 children) over 4 bloom, 3 regex and 4 prefilter leaves, each built bottom-up through the public constructors (so flattening runs) and evaluated by the real engine on a 16-row truth-table corpus against the nested combination as written; every tree and Query is marshalled, unmarshalled, compared structurally and re-run; builder chains of length <= 4 in the documented forms; every numeric / partition operator with operands at 0, +-1, around 2^53, nanosecond timestamps and the int64 extremes (strings with escapes, control and non-ASCII characters) round-tripped through JSON: deep equality and identical evaluation on blocks around every operand; nil/empty/unknown nodes via the special-node tree set; construction histories of <= 2 (quick) / 3 (thorough) steps over a pool seeded with one shared base expression (constructors, builder chains after Match, AndBloomQueries applied to any pool member): the new object must mean what was written and every object built earlier must keep its serialised form; non-trivial = the tree separates the corpus",
	}
}

// c25Operands: JSON round trip of prefilter conditions over boundary operands (beyond 2^53,
// at the int64 extremes, strings with escapes): the decoded expression must be deeply equal
// to the original and evaluate identically on blocks around every operand.
func c25Operands() CaseResult {
	var res CaseResult
	nums := []int64{0, 1, -1, 1<<53 - 1, 1 << 53, 1<<53 + 1, -(1<<53 + 1), 1<<60 + 1, 1700000000123456789, math.MaxInt64, math.MaxInt64 - 1, math.MinInt64, math.MinInt64 + 1}
	var conds []bs.NumericCondition
	for _, v := range nums {
		conds = append(conds, bs.NumericEquals(v), bs.NumericNotEquals(v), bs.NumericGreaterThan(v), bs.NumericGreaterThanEqual(v), bs.NumericLessThan(v), bs.NumericLessThanEqual(v),
			bs.NumericIn(v, 7), bs.NumericNotIn(v), bs.NumericBetween(v-1, v), bs.NumericNotBetween(v, v))
	}
	for i := range nums {
		for j := range nums {
			if nums[i] <= nums[j] {
				conds = append(conds, bs.NumericBetween(nums[i], nums[j]))
			}
		}
	}
	strs := []string{"", "pa", "p\"q", "p\\u00e9", "é", "a\nb", "\x00", "<>&"}
	var exprs []bs.PrefilterExpression
	for _, c := range conds {
		exprs = append(exprs, bs.MinMax("n", c), bs.PrefilterAnd(bs.Partition(bs.PartitionEquals("pa")), bs.MinMax("n", c)), bs.PrefilterOr(bs.MinMax("m", bs.NumericLessThan(3)), bs.MinMax("n", c)))
	}
	for _, s := range strs {
		exprs = append(exprs, bs.Partition(bs.PartitionEquals(s)), bs.Partition(bs.PartitionIn(s, "x")), bs.Partition(bs.PartitionBetween("", s)), bs.Partition(bs.PartitionNotIn(s)), bs.Partition(bs.PartitionGreaterThan(s)))
	}
	var blocks []bs.DataBlockMetadata
	for _, v := range nums {
		for _, d := range []int64{-1, 0, 1} {
			x := v + d
			if (d > 0 && x < v) || (d < 0 && x > v) {
				continue // wrapped
			}
			blocks = append(blocks, bs.DataBlockMetadata{PartitionID: "pa", MinMaxIndexes: map[string]bs.MinMaxIndex{"n": {Min: x, Max: x}}})
		}
	}
	for _, s := range strs {
		blocks = append(blocks, bs.DataBlockMetadata{PartitionID: s, MinMaxIndexes: map[string]bs.MinMaxIndex{"n": {Min: 0, Max: 0}}})
	}
	for ei := range exprs {
		e := exprs[ei]
		q := &bs.Query{Prefilter: &bs.QueryPrefilter{Expression: &e}}
		b, err := json.Marshal(q)
		var q2 bs.Query
		if err == nil {
			err = json.Unmarshal(b, &q2)
		}
		if err != nil {
			res.Findings = append(res.Findings, fnd("c25-json", "C25 operands %s: JSON round trip failed: %v", b, err))
			continue
		}
		if q2.Prefilter == nil || q2.Prefilter.Expression == nil || !reflect.DeepEqual(*q2.Prefilter.Expression, e) {
			b2, _ := json.Marshal(&q2)
			res.Findings = append(res.Findings, fnd("c25-json-operand-changed", "C25: prefilter %s decodes to a different expression: %s", b, b2))
			continue
		}
		sep := false
		for bi := range blocks {
			res.Evals++
			a, c := bs.EvaluateDataBlockMetadata(&blocks[bi], q.Prefilter), bs.EvaluateDataBlockMetadata(&blocks[bi], q2.Prefilter)
			if a != c {
				res.Findings = append(res.Findings, fnd("c25-json-results", "C25: prefilter %s evaluates to %v on block %v before and %v after a JSON round trip", b, a, blocks[bi].MinMaxIndexes, c))
				break
			}
			if a != bs.EvaluateDataBlockMetadata(&blocks[0], q.Prefilter) {
				sep = true
			}
		}
		if sep {
			res.Nontrivial++
		}
		if len(res.Findings) > 10 {
			break
		}
	}
	res.Sample = map[string]any{"expressions": len(exprs), "blocks": len(blocks)}
	return res
}

// Command hseq is the plain-build harness of engines E2/E3/E4: bounded-exhaustive
// enumeration of inputs, histories, fault positions and crash points against reference
// models. It drives only the public API of the unmodified package in /repo.
package main

import (
	"encoding/json"
	"flag"
	"fmt"
	"os"
	"runtime"
	"runtime/debug"
	"sort"
	"sync"
	"sync/atomic"
	"time"
)

var (
	mode    = flag.String("mode", "", "property mode (C01, C04, ...)")
	tier    = flag.String("tier", "quick", "quick|thorough")
	outPath = flag.String("out", "", "result JSON")
	budget  = flag.Float64("budget", 0, "wall-clock budget in seconds (0 = none)")
	scratch = flag.String("scratch", "", "scratch directory")
	replay  = flag.String("replay", "", "replay file")
	only    = flag.String("case", "", "run only this case id")
	jobs    = flag.Int("j", runtime.NumCPU(), "parallel cases")
)

// Finding is one oracle failure.
type Finding struct {
	Msg string `json:"message"`
	Sig string `json:"signature"`
}

// CaseResult is what running one case reports.
type CaseResult struct {
	Evals       int
	Nontrivial  int
	States      int
	Transitions int
	Findings    []Finding
	Sample      any
	Outcomes    []string // distinct observed outcome labels (for vacuity reporting)
	Capped      string
}

// Case is one independently replayable unit of enumeration.
type Case struct {
	ID  string
	Run func() CaseResult
}

// ModeSpec describes a mode.
type ModeSpec struct {
	Cases       func(tier string) []Case
	Rule        string
	Assumptions []string
}

var modes = map[string]ModeSpec{}

// PartResult is the JSON handed to the check driver.
type PartResult struct {
	Mode        string           `json:"mode"`
	Tier        string           `json:"tier"`
	Cases       int              `json:"cases"`
	CasesRun    int              `json:"cases_run"`
	Evaluations int              `json:"evaluations"`
	Distinct    int              `json:"distinct_nontrivial"`
	States      int              `json:"states"`
	Transitions int              `json:"transitions"`
	Validated   int              `json:"traces_validated"`
	Rule        string           `json:"rule"`
	Samples     []any            `json:"samples"`
	Exhaustive  bool             `json:"exhaustive"`
	Caps        []string         `json:"caps,omitempty"`
	Outcomes    int              `json:"distinct_outcomes"`
	Violations  []map[string]any `json:"violations"`
	Errors      []string         `json:"errors,omitempty"`
	WallS       float64          `json:"wall_s"`
}

func fnd(sig, format string, a ...any) Finding {
	return Finding{Msg: fmt.Sprintf(format, a...), Sig: sig}
}

// caseTimeout bounds one case; a case that exceeds it is abandoned (its goroutine keeps
// running until the process exits) and reported as a cap, never as a violation.
var caseTimeout = 10 * time.Minute

func runCase(c Case) CaseResult {
	ch := make(chan CaseResult, 1)
	go func() { ch <- runCaseInner(c) }()
	select {
	case r := <-ch:
		return r
	case <-time.After(caseTimeout):
		return CaseResult{Capped: fmt.Sprintf("case did not finish within %v (abandoned; no verdict)", caseTimeout)}
	}
}

func runCaseInner(c Case) (res CaseResult) {
	defer func() {
		if r := recover(); r != nil {
			res.Findings = append(res.Findings, fnd("panic", "panic in case %s: %v\n%s", c.ID, r, debug.Stack()))
		}
	}()
	return c.Run()
}

func main() {
	flag.Parse()
	debug.SetGCPercent(200)
	if *replay != "" {
		os.Exit(doReplay())
	}
	if *mode == "C27child" {
		c27Child()
		return
	}
	if *mode == "C19child" {
		c19Child()
		return
	}
	spec, ok := modes[*mode]
	if !ok {
		fmt.Fprintf(os.Stderr, "unknown mode %q\n", *mode)
		os.Exit(2)
	}
	start := time.Now()
	cases := spec.Cases(*tier)
	if *only != "" {
		var f []Case
		for _, c := range cases {
			if c.ID == *only {
				f = append(f, c)
			}
		}
		cases = f
	}
	pr := PartResult{Mode: *mode, Tier: *tier, Cases: len(cases), Rule: spec.Rule, Exhaustive: true}
	var mu sync.Mutex
	var next int64 = -1
	outcomes := map[string]bool{}
	var wg sync.WaitGroup
	deadline := time.Time{}
	if *budget > 0 {
		deadline = start.Add(time.Duration(*budget * float64(time.Second)))
	}
	type failed struct {
		c Case
		r CaseResult
	}
	var fails []failed
	for w := 0; w < *jobs; w++ {
		wg.Add(1)
		go func() {
			defer wg.Done()
			for {
				i := int(atomic.AddInt64(&next, 1))
				if i >= len(cases) {
					return
				}
				if !deadline.IsZero() && time.Now().After(deadline) {
					mu.Lock()
					if pr.Exhaustive {
						pr.Exhaustive = false
						pr.Caps = append(pr.Caps, fmt.Sprintf("wall-clock budget %.0fs reached after %d of %d cases", *budget, pr.CasesRun, len(cases)))
					}
					mu.Unlock()
					return
				}
				r := runCase(cases[i])
				mu.Lock()
				pr.CasesRun++
				pr.Evaluations += r.Evals
				pr.Distinct += r.Nontrivial
				pr.States += r.States
				pr.Transitions += r.Transitions
				pr.Validated += r.Evals
				for _, o := range r.Outcomes {
					outcomes[o] = true
				}
				if r.Capped != "" {
					pr.Exhaustive = false
					pr.Caps = append(pr.Caps, cases[i].ID+": "+r.Capped)
				}
				if r.Sample != nil && len(pr.Samples) < 6 {
					pr.Samples = append(pr.Samples, map[string]any{"case": cases[i].ID, "sample": r.Sample})
				}
				if len(r.Findings) > 0 {
					fails = append(fails, failed{cases[i], r})
				}
				mu.Unlock()
			}
		}()
	}
	wg.Wait()
	pr.Outcomes = len(outcomes)
	// Reproducibility gate: a failing case must fail the same way on five re-runs. Exempt are
	// findings that are conclusive from a single observation whatever the runtime did: a value
	// the harness holds a private deep copy of has changed (memory shared with a reused
	// buffer). Whether the reuse happens depends on sync.Pool and the garbage collector, so such
	// a failure need not repeat, but nothing in a correct run can produce it even once.
	sort.Slice(fails, func(i, j int) bool { return fails[i].c.ID < fails[j].c.ID })
	seenSig := map[string]int{}
	// the re-runs of the first 40 failing cases go in parallel (five at once per case)
	stableOf := make([]bool, len(fails))
	sem := make(chan struct{}, *jobs)
	var gw sync.WaitGroup
	for i, f := range fails {
		stableOf[i] = true
		if conclusiveOnce(f.r.Findings) || i >= 40 {
			continue // reported as observed
		}
		var unstable atomic.Bool
		for k := 0; k < 5; k++ {
			gw.Add(1)
			go func(i int, f failed) {
				defer gw.Done()
				sem <- struct{}{}
				defer func() { <-sem }()
				if unstable.Load() {
					return
				}
				if r2 := runCase(f.c); !sameSigs(r2.Findings, f.r.Findings) {
					unstable.Store(true)
					mu.Lock()
					stableOf[i] = false
					mu.Unlock()
				}
			}(i, f)
		}
	}
	gw.Wait()
	for i, f := range fails {
		stable := stableOf[i]
		if !stable {
			pr.Errors = append(pr.Errors, fmt.Sprintf("case %s failed but did not reproduce identically on re-run; not reported as a violation: %s", f.c.ID, f.r.Findings[0].Msg))
			pr.Exhaustive = false
			continue
		}
		for _, fd := range f.r.Findings {
			seenSig[fd.Sig]++
			if seenSig[fd.Sig] > 3 {
				continue // keep at most three replays per signature
			}
			pr.Violations = append(pr.Violations, map[string]any{
				"case": f.c.ID, "message": fd.Msg, "signature": fd.Sig,
				"replay": map[string]any{"engine": "seq", "mode": *mode, "tier": *tier, "case": f.c.ID, "message": fd.Msg, "signature": fd.Sig},
			})
		}
	}
	pr.WallS = time.Since(start).Seconds()
	if pr.Samples == nil {
		pr.Samples = []any{}
	}
	if pr.Violations == nil {
		pr.Violations = []map[string]any{}
	}
	if *outPath != "" {
		b, _ := json.MarshalIndent(pr, "", " ")
		os.WriteFile(*outPath, b, 0o644)
	}
	fmt.Printf("mode=%s tier=%s cases=%d/%d evaluations=%d distinct=%d states=%d outcomes=%d exhaustive=%v violations=%d wall=%.1fs\n",
		*mode, *tier, pr.CasesRun, len(cases), pr.Evaluations, pr.Distinct, pr.States, pr.Outcomes, pr.Exhaustive, len(pr.Violations), pr.WallS)
	for i, v := range pr.Violations {
		if i < 10 {
			fmt.Printf("  FINDING case=%v: %v\n", v["case"], trunc(fmt.Sprint(v["message"]), 600))
		}
	}
	for _, e := range pr.Errors {
		fmt.Println("  ERROR:", trunc(e, 400))
	}
}

func trunc(s string, n int) string {
	if len(s) > n {
		return s[:n] + "…"
	}
	return s
}

// conclusiveSig: a finding of this kind is settled by one observation.
func conclusiveSig(sig string) bool {
	switch sig {
	case "c03-retained-row-changed", "c03-rows-share-state", "c03-shared-state", "c17-helper-result-not-stable",
		// bytes allocated while one artefact was read, from the runtime's monotonic counter in a
		// single-threaded child: megabytes above the bound cannot come from the harness, but
		// whether a pooled decoder allocates its window again depends on what it decoded before
		"c19-allocation":
		return true
	}
	return false
}

// conclusiveOnce: every finding of the case is of a kind that one observation settles.
func conclusiveOnce(fs []Finding) bool {
	for _, f := range fs {
		if !conclusiveSig(f.Sig) {
			return false
		}
	}
	return len(fs) > 0
}

func sameSigs(a, b []Finding) bool {
	// findings settled by one observation need not repeat: the other findings must
	sa, sb := map[string]bool{}, map[string]bool{}
	for _, f := range a {
		if !conclusiveSig(f.Sig) {
			sa[f.Sig] = true
		}
	}
	for _, f := range b {
		if !conclusiveSig(f.Sig) {
			sb[f.Sig] = true
		}
	}
	if len(sa) != len(sb) {
		return false
	}
	for k := range sa {
		if !sb[k] {
			return false
		}
	}
	return true
}

func doReplay() int {
	b, err := os.ReadFile(*replay)
	if err != nil {
		fmt.Fprintln(os.Stderr, err)
		return 2
	}
	var rp struct {
		Mode, Tier, Case, Message string
		Property                  string `json:"claimed_property"`
	}
	if err := json.Unmarshal(b, &rp); err != nil {
		fmt.Fprintln(os.Stderr, err)
		return 2
	}
	spec, ok := modes[rp.Mode]
	if !ok {
		fmt.Fprintf(os.Stderr, "unknown mode %q\n", rp.Mode)
		return 2
	}
	*mode, *tier = rp.Mode, rp.Tier
	for _, c := range spec.Cases(rp.Tier) {
		if c.ID != rp.Case {
			continue
		}
		r := runCase(c)
		fmt.Printf("case %s: evaluations=%d findings=%d\n", c.ID, r.Evals, len(r.Findings))
		for _, f := range r.Findings {
			fmt.Println("FAILURE:", f.Msg)
		}
		if len(r.Findings) > 0 {
			pid := rp.Property
			if pid == "" {
				pid = rp.Mode
			}
			fmt.Printf("VIOLATION property=%s replay=%s\n", pid, *replay)
			return 1
		}
		fmt.Println("no violation on this tree")
		return 0
	}
	fmt.Fprintf(os.Stderr, "case %q not found in mode %s/%s\n", rp.Case, rp.Mode, rp.Tier)
	return 2
}

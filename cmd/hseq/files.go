package main

import (
	"bytes"
	"context"
	"fmt"
	"math"
	"math/big"
	"sort"

	"github.com/bits-and-blooms/bloom/v3"
	bs "github.com/danthegoodman1/bloomsearch"

	"verif/hstore"
	"verif/refmodel"
)

func ctxBG() context.Context { return context.Background() }

// C17 / C18 — every engine-written file is parsed by the independent reader and compared
// with what the reference derives from its rows.

type fileOpts struct{ c17, c18 bool }

func filterBytes(f *bloom.BloomFilter) []byte {
	if f == nil {
		return nil
	}
	var b bytes.Buffer
	f.WriteTo(&b)
	return b.Bytes()
}

// checkWorldFiles evaluates the C17/C18 rules on every file of a world.
func checkWorldFiles(w *World, o fileOpts, indexedKeys []string, out *[]Finding, evals *int) {
	// raw bytes -> original Go rows (for minmax / partition reference)
	byRaw := map[string][]*StoredRow{}
	for i := range w.Rows {
		byRaw[string(w.Rows[i].Raw)] = append(byRaw[string(w.Rows[i].Raw)], &w.Rows[i])
	}
	var allRaw []string
	// results of the public read helpers are kept while further helper calls and queries run
	// (value semantics: what a helper returned must stay what was written)
	type kept struct {
		what string
		got  []byte // as returned by the helper (not copied)
		want []byte
	}
	var retained []kept
	for _, ptr := range w.Meta.Pointers() {
		data, ok := w.Data.Bytes(ptr)
		if !ok {
			*out = append(*out, fnd("c17-missing-file", "C17: referenced file %s is not in the data store", ptr))
			continue
		}
		*evals++
		pf, err := refmodel.ParseFile(data)
		if err != nil {
			*out = append(*out, fnd("c17-independent-parse", "C17: file %s does not parse by FILE_FORMAT.md: %v", ptr, err))
			continue
		}
		md, size, err := bs.ReadFileMetadata(bytes.NewReader(data))
		if err != nil {
			*out = append(*out, fnd("c17-readfilemetadata", "C17: ReadFileMetadata(%s): %v", ptr, err))
			continue
		}
		fileF, fileT, fileFT := map[string]bool{}, map[string]bool{}, map[string]bool{}
		if o.c17 {
			if size != int64(len(data)) {
				*out = append(*out, fnd("c17-size", "C17: ReadFileMetadata reports size %d for a %d-byte file", size, len(data)))
			}
			stored, _ := w.Meta.Metadata(ptr)
			if len(stored.DataBlocks) != len(md.DataBlocks) {
				*out = append(*out, fnd("c17-metastore-blocks", "C17: MetaStore holds %d blocks for %s, the file describes %d", len(stored.DataBlocks), ptr, len(md.DataBlocks)))
			}
			// layout: row data contiguous from 0, region right behind it, sections back to back
			off := 0
			for i, b := range pf.Meta.DataBlocks {
				if b.RowDataOffset != off {
					*out = append(*out, fnd("c17-rowdata-not-contiguous", "C17: %s block %d row data starts at %d, expected %d", ptr, i, b.RowDataOffset, off))
				}
				off = b.RowDataOffset + b.RowDataSize
			}
			if pf.Meta.BlockFilterRegionOffset != off {
				*out = append(*out, fnd("c17-region-offset", "C17: %s block filter region starts at %d, row data ends at %d", ptr, pf.Meta.BlockFilterRegionOffset, off))
			}
			so := pf.Meta.BlockFilterRegionOffset
			for i, b := range pf.Meta.DataBlocks {
				if b.BloomFilterSize == 0 {
					*out = append(*out, fnd("c17-missing-section", "C17: %s block %d has no filter section", ptr, i))
					continue
				}
				if b.BloomFilterOffset != so {
					*out = append(*out, fnd("c17-sections-not-in-order", "C17: %s block %d filter section at %d, expected %d (back to back in block order)", ptr, i, b.BloomFilterOffset, so))
				}
				so = b.BloomFilterOffset + b.BloomFilterSize
			}
			if so != pf.Meta.BlockFilterRegionOffset+pf.Meta.BlockFilterRegionSize {
				*out = append(*out, fnd("c17-region-size", "C17: %s sections end at %d, region ends at %d", ptr, so, pf.Meta.BlockFilterRegionOffset+pf.Meta.BlockFilterRegionSize))
			}
			if so != pf.MetaOffset-pf.Meta.FileFilterSectionSize {
				*out = append(*out, fnd("c17-gap-before-footer", "C17: %s region ends at %d but the file filter section starts at %d", ptr, so, pf.MetaOffset-pf.Meta.FileFilterSectionSize))
			}
		}
		for i := range pf.Blocks {
			pb := &pf.Blocks[i]
			bm := md.DataBlocks[i]
			bf, bt, bft := map[string]bool{}, map[string]bool{}, map[string]bool{}
			var infos []*refmodel.RowInfo
			for _, rb := range pb.Rows {
				allRaw = append(allRaw, string(rb))
				info, err := refmodel.Analyze(rb)
				if err != nil {
					*out = append(*out, fnd("c17-row-not-json", "C17: %s block %d holds a row that is not JSON: %q", ptr, i, rb))
					continue
				}
				infos = append(infos, info)
				f, t, ft := info.Entries(w.Tok)
				for k := range f {
					bf[k], fileF[k] = true, true
				}
				for k := range t {
					bt[k], fileT[k] = true, true
				}
				for k := range ft {
					bft[k], fileFT[k] = true, true
				}
			}
			if o.c17 {
				m := pb.Meta
				if m.Rows != len(pb.Rows) {
					*out = append(*out, fnd("c17-row-count", "C17: %s block %d Rows=%d, row data holds %d", ptr, i, m.Rows, len(pb.Rows)))
				}
				if m.UncompressedSize != len(pb.RowData) {
					*out = append(*out, fnd("c17-uncompressed-size", "C17: %s block %d UncompressedSize=%d, decoded %d", ptr, i, m.UncompressedSize, len(pb.RowData)))
				}
				if !m.HasRowDataHash {
					*out = append(*out, fnd("c17-no-hash", "C17: %s block %d carries no row data hash", ptr, i))
				}
				if m.Compression != string(w.Cfg.RowDataCompression) && m.Compression != "" {
					// copied blocks keep their source compression; both are decodable (checked by ParseFile)
				}
				if m.BloomEntryCounts.Fields != len(bf) || m.BloomEntryCounts.Tokens != len(bt) || m.BloomEntryCounts.FieldTokens != len(bft) {
					*out = append(*out, fnd("c17-entry-counts", "C17: %s block %d BloomEntryCounts=%+v, its rows hold %d fields / %d tokens / %d field:token pairs", ptr, i, m.BloomEntryCounts, len(bf), len(bt), len(bft)))
				}
				// helpers agree with the independent reader
				rd, err := bs.ReadDataBlockRowData(bytes.NewReader(data), &bm)
				if err != nil {
					*out = append(*out, fnd("c17-helper-rowdata", "C17: ReadDataBlockRowData(%s block %d): %v", ptr, i, err))
				} else if !bytes.Equal(rd, pb.RowData) {
					*out = append(*out, fnd("c17-helper-rowdata-differs", "C17: ReadDataBlockRowData(%s block %d) differs from the independently decoded row data", ptr, i))
				} else {
					retained = append(retained, kept{fmt.Sprintf("ReadDataBlockRowData(%s block %d)", ptr, i), rd, pb.RowData})
					sc := bs.NewBlockRowScanner(rd)
					n := 0
					for {
						rb, ok, err := sc.Next()
						if err != nil || !ok {
							break
						}
						if n >= len(pb.Rows) || !bytes.Equal(rb, pb.Rows[n]) {
							*out = append(*out, fnd("c17-scanner-differs", "C17: BlockRowScanner row %d of %s block %d differs", n, ptr, i))
							break
						}
						retained = append(retained, kept{fmt.Sprintf("BlockRowScanner row %d of %s block %d", n, ptr, i), rb, pb.Rows[n]})
						n++
					}
					if n != len(pb.Rows) {
						*out = append(*out, fnd("c17-scanner-count", "C17: BlockRowScanner yields %d rows for %s block %d, expected %d", n, ptr, i, len(pb.Rows)))
					}
				}
				hf, err := bs.ReadDataBlockBloomFilters(bytes.NewReader(data), bm)
				if err != nil {
					*out = append(*out, fnd("c17-helper-filters", "C17: ReadDataBlockBloomFilters(%s block %d): %v", ptr, i, err))
				} else if !bytes.Equal(filterBytes(hf.FieldBloomFilter), filterBytes(pb.Filters.Field)) || !bytes.Equal(filterBytes(hf.TokenBloomFilter), filterBytes(pb.Filters.Token)) || !bytes.Equal(filterBytes(hf.FieldTokenBloomFilter), filterBytes(pb.Filters.FieldToken)) {
					*out = append(*out, fnd("c17-helper-filters-differ", "C17: ReadDataBlockBloomFilters(%s block %d) differs from the section's filters", ptr, i))
				}
			}
			if o.c18 {
				miss := func(f *bloom.BloomFilter, set map[string]bool, kind, level string) {
					if f == nil {
						*out = append(*out, fnd("c18-filter-absent", "C18: %s block %d has no %s filter at %s level", ptr, i, kind, level))
						return
					}
					for _, e := range sortedStrings(set) {
						if !f.TestString(e) {
							*out = append(*out, fnd("c18-entry-missing:"+kind+"/"+level, "C18: %s entry %q of %s block %d tests negative in the %s-level filter", kind, e, ptr, i, level))
							return
						}
					}
				}
				miss(pb.Filters.Field, bf, "field", "block")
				miss(pb.Filters.Token, bt, "token", "block")
				miss(pb.Filters.FieldToken, bft, "fieldtoken", "block")
				miss(pf.FileFilters.Field, bf, "field", "file")
				miss(pf.FileFilters.Token, bt, "token", "file")
				miss(pf.FileFilters.FieldToken, bft, "fieldtoken", "file")
				// partition + minmax against the original Go rows
				wantKeys := map[string]bool{}
				for _, rb := range pb.Rows {
					cands := byRaw[string(rb)]
					if len(cands) == 0 {
						*out = append(*out, fnd("c18-unknown-row", "C18: %s block %d holds a row that was never ingested: %q", ptr, i, rb))
						continue
					}
					okPart := false
					for _, c := range cands {
						if c.Partition == pb.Meta.PartitionID {
							okPart = true
						}
					}
					if !okPart {
						*out = append(*out, fnd("c18-partition", "C18: %s block %d has PartitionID %q but its row %q belongs to partition %q", ptr, i, pb.Meta.PartitionID, rb, cands[0].Partition))
					}
					sr := cands[0]
					for _, key := range indexedKeys {
						v, ok := sr.Row[key]
						if !ok {
							continue
						}
						x, ok := refmodel.ExactNum(v)
						if !ok {
							continue
						}
						wantKeys[key] = true
						r, have := pb.Meta.MinMaxIndexes[key]
						if !have {
							continue // reported below as a key-set mismatch
						}
						if !covers(r.Min, r.Max, x) {
							*out = append(*out, fnd("c18-minmax-cover", "C18: %s block %d range %s=[%d,%d] does not cover the value %v of row %q", ptr, i, key, r.Min, r.Max, v, rb))
						}
					}
				}
				var have []string
				for k := range pb.Meta.MinMaxIndexes {
					have = append(have, k)
				}
				sort.Strings(have)
				if fmt.Sprint(have) != fmt.Sprint(sortedStrings(wantKeys)) {
					*out = append(*out, fnd("c18-minmax-keyset", "C18: %s block %d lists minmax keys %v, its rows supplied numeric values for %v", ptr, i, have, sortedStrings(wantKeys)))
				}
			}
		}
		if o.c17 && (pf.Meta.BloomEntryCounts.Fields != len(fileF) || pf.Meta.BloomEntryCounts.Tokens != len(fileT) || pf.Meta.BloomEntryCounts.FieldTokens != len(fileFT)) {
			*out = append(*out, fnd("c17-file-entry-counts", "C17: %s file BloomEntryCounts=%+v, its rows hold %d/%d/%d", ptr, pf.Meta.BloomEntryCounts, len(fileF), len(fileT), len(fileFT)))
		}
	}
	if o.c17 && len(retained) > 0 {
		// disturbance: queries (pooled scan buffers) and a second round of helper reads
		tx := bs.Token("x")
		for _, q := range []*bs.Query{{}, {Bloom: &bs.BloomQuery{Expression: &tx}}, {}} {
			w.Query(q)
		}
		for _, ptr := range w.Meta.Pointers() {
			data, _ := w.Data.Bytes(ptr)
			md, _, err := bs.ReadFileMetadata(bytes.NewReader(data))
			if err != nil {
				continue
			}
			for i := range md.DataBlocks {
				bs.ReadDataBlockRowData(bytes.NewReader(data), &md.DataBlocks[i])
			}
		}
		for _, k := range retained {
			if !bytes.Equal(k.got, k.want) {
				*out = append(*out, fnd("c17-helper-result-not-stable", "C17: the result of %s equalled the written bytes when it was returned but changed after later helper calls and queries (it aliases a reused buffer)", k.what))
				break
			}
		}
	}
	if o.c17 {
		var want []string
		for i := range w.Rows {
			want = append(want, string(w.Rows[i].Raw))
		}
		if miss, extra := diffMultiset(allRaw, want); len(miss)+len(extra) > 0 {
			*out = append(*out, fnd("c17-content", "C17: files hold a different multiset of row bytes than was acknowledged: missing %s; extra %s", short(miss, 2), short(extra, 2)))
		}
	}
}

// covers: [min,max] (open-ended at saturated int64 extremes) contains [floor(x), ceil(x)].
func covers(min, max int64, x refmodel.Num) bool {
	if x.Inf > 0 {
		return max == math.MaxInt64
	}
	if x.Inf < 0 {
		return min == math.MinInt64
	}
	lo := min == math.MinInt64 || big.NewInt(min).Cmp(x.Floor()) <= 0
	hi := max == math.MaxInt64 || big.NewInt(max).Cmp(x.Ceil()) >= 0
	return lo && hi
}

func fileCases(tier string, o fileOpts) []Case {
	var cs []Case
	for ti, tk := range tokenizers() {
		for li, lay := range layoutsFor(tier) {
			if lay.name == "external-writer" || lay.name == "external-writer-bigpad" {
				continue
			}
			if tier == "quick" && ti > 0 && li != ti%3 && lay.name != "chunks9-none-merged-twice" {
				continue
			}
			tk, lay := tk, lay
			cs = append(cs, Case{ID: "files/" + tk.name + "/" + lay.name, Run: func() CaseResult {
				var res CaseResult
				cfg := quietConfig()
				cfg.Tokenizer = tk.eng
				cfg = lay.cfg(cfg)
				w, err := newWorld(cfg, tk.ref)
				if err != nil {
					res.Findings = append(res.Findings, fnd("setup", "%v", err))
					return res
				}
				defer w.Close()
				if err := lay.build(w, alphaRows()); err != nil {
					res.Findings = append(res.Findings, fnd("layout-build", "%v", err))
					return res
				}
				checkWorldFiles(w, o, cfg.MinMaxIndexes, &res.Findings, &res.Evals)
				res.Nontrivial = res.Evals
				res.Sample = map[string]any{"tokenizer": tk.name, "layout": lay.name, "files": len(w.Meta.Pointers())}
				return res
			}})
		}
	}
	// numeric / partition corpus with minmax keys, flushed and merged
	for v := 0; v < prefilterVariants(tier)+2; v++ {
		v := v
		cs = append(cs, Case{ID: fmt.Sprintf("files/minmax/%d", v), Run: func() CaseResult {
			var res CaseResult
			cfg := quietConfig()
			cfg.RowDataCompression = []bs.CompressionType{bs.CompressionNone, bs.CompressionSnappy, bs.CompressionZstd}[v%3]
			cfg.BloomFalsePositiveRate = 0.01
			cfg.MinMaxIndexes = []string{"n", "m"}
			cfg.PartitionFunc = func(r map[string]any) string { s, _ := r["p"].(string); return s }
			w, err := newWorld(cfg, nil)
			if err != nil {
				res.Findings = append(res.Findings, fnd("setup", "%v", err))
				return res
			}
			defer w.Close()
			rows := prefilterRows()
			for _, cv := range c04Values() {
				if cv.json {
					rows = append(rows, map[string]any{"n": cv.v, "p": []string{"pa", "pb", ""}[len(rows)%3], "id": len(rows)})
				}
			}
			if err := putChunks(w, rows, []int{1, 3, 7, 40, 1000}[v%5]); err != nil {
				res.Findings = append(res.Findings, fnd("setup-ingest", "%v", err))
				return res
			}
			if v >= 2 {
				mc := cfg
				mc.MaxFilesToMergePerOperation = 5
				mc.MaxRowGroupRows = []int{4, 1000, 9}[v%3]
				other, err := w.engineWith(mc)
				if err == nil {
					err = mergeAll(w, other, 5)
				}
				if err != nil {
					res.Findings = append(res.Findings, fnd("setup-merge", "%v", err))
					return res
				}
			}
			checkWorldFiles(w, o, cfg.MinMaxIndexes, &res.Findings, &res.Evals)
			res.Nontrivial = res.Evals
			res.Sample = map[string]any{"variant": v, "files": len(w.Meta.Pointers())}
			return res
		}})
	}
	for _, kind := range []string{"merge", "flush"} {
		for _, comp := range []bs.CompressionType{bs.CompressionNone, bs.CompressionSnappy, bs.CompressionZstd} {
			if tier == "quick" && comp == bs.CompressionZstd {
				continue
			}
			kind, comp := kind, comp
			cs = append(cs, Case{ID: fmt.Sprintf("after-failed-%s/%s", kind, comp), Run: func() CaseResult { return afterFailureCase(kind, comp, o) }})
		}
	}
	return cs
}

func init() {
	modes["C17"] = ModeSpec{
		Cases: func(t string) []Case { return fileCases(t, fileOpts{c17: true}) },
		Rule:  "every file of every engine-written layout (flushes, merges incl. by differently configured engines, all compressions, partitions, minmax keys); each file is parsed by an independent reader of FILE_FORMAT.md and every block's counts, sizes, CRC, compression and measured entry counts are recomputed; public helpers must agree byte for byte; the same for the files an engine writes after one of its merges / flushes was failed at each store call position in turn",
	}
	modes["C18"] = ModeSpec{
		Cases: func(t string) []Case { return fileCases(t, fileOpts{c18: true}) },
		Rule:  "same files as C17; every field/token/field:token entry the reference derives from a block's rows must test positive in the block's and the file's filters; minmax key sets and ranges are recomputed from the original Go values (math/big), partition ids from the partition function",
	}
}

// ---- files written after a failed operation ---------------------------------------------
//
// "Every file produced by flush or merge" includes the ones produced after an earlier flush or
// merge on the same engine failed half way: for every store call position of a merge (and of
// a flush) the operation is failed there once, the same engine then repeats it fault-free, and
// every referenced file must describe itself.

func afterFailureCase(kind string, comp bs.CompressionType, o fileOpts) CaseResult {
	var res CaseResult
	run := func(target int) (calls int, ok bool) {
		cfg := quietConfig()
		cfg.RowDataCompression = comp
		cfg.BloomFalsePositiveRate = 0.01
		cfg.MinMaxIndexes = []string{"n"}
		cfg.PartitionFunc = func(r map[string]any) string { s, _ := r["p"].(string); return s }
		cfg.MaxFilesToMergePerOperation = 6
		w, err := newWorld(cfg, nil)
		if err != nil {
			res.Findings = append(res.Findings, fnd("setup", "%v", err))
			return 0, false
		}
		defer w.Close()
		fc := &faultCounter{targets: map[int]bool{}}
		if target > 0 {
			fc.targets[target] = true
		}
		skip := map[string]bool{"HandleClose": true, "Iter": true, "IterYield": true}
		w.Data.Hook = fc.hook("data", skip)
		w.Meta.(*hstore.MemMeta).Hook = fc.hook("meta", skip)
		batches := [][]map[string]any{
			{{"id": "a1", "p": "a", "n": 1, "t": "x y"}, {"id": "b1", "p": "b", "n": 5}, {"id": "c1", "p": "c", "t": "z"}},
			{{"id": "a2", "p": "a", "n": 3, "t": "y"}, {"id": "b2", "p": "b", "n": -2, "t": "x"}, {"id": "c2", "p": "c", "t": "w w"}},
			{{"id": "a3", "p": "a", "n": 9}},
		}
		ctx := context.Background()
		label := fmt.Sprintf("%s/%s fault #%d", kind, comp, target)
		if kind == "merge" {
			for _, b := range batches {
				if err := w.Put(b); err != nil {
					res.Findings = append(res.Findings, fnd("setup-ingest", "%s: %v", label, err))
					return 0, false
				}
			}
			fc.arm(true)
			w.Eng.Merge(ctx) // may fail: the injected fault
			fc.arm(false)
			calls = fc.n
			if _, err := w.Eng.Merge(ctx); err != nil {
				res.Findings = append(res.Findings, fnd("c17-merge-after-failure", "C17 %s: the fault-free Merge after the failed one returned %v", label, err))
			}
		} else {
			// flush: the first batch's flush is failed, then the same rows and more are flushed fault-free
			fc.arm(true)
			done, err := w.IngestAsync(batches[0])
			if err == nil {
				w.Eng.Flush(ctx)
				<-done // answered with the injected error, or nil when the fault hit a call that does not fail the flush
			}
			fc.arm(false)
			calls = fc.n
			// which rows are stored now is C06's subject; rebuild the reference from the files
			for _, b := range batches[1:] {
				if err := w.Put(b); err != nil {
					res.Findings = append(res.Findings, fnd("c17-flush-after-failure", "C17 %s: a fault-free flush after the failed one returned %v", label, err))
				}
			}
			if bl, err := w.Blocks(); err == nil {
				have := map[string]bool{}
				for _, b := range bl {
					for _, c := range b.Canon {
						have[c] = true
					}
				}
				for _, r := range batches[0] {
					if sr, err := mkStored(r, w.Part); err == nil && have[sr.Info.Canon] {
						w.Rows = append(w.Rows, sr)
					}
				}
			}
		}
		res.Evals++
		if len(fc.fired) > 0 {
			res.Nontrivial++
		}
		var fs []Finding
		n := 0
		checkWorldFiles(w, o, cfg.MinMaxIndexes, &fs, &n)
		for _, f := range fs {
			f.Msg = fmt.Sprintf("after %s %v: %s", label, fc.fired, f.Msg)
			res.Findings = append(res.Findings, f)
		}
		return calls, true
	}
	n, ok := run(0)
	if !ok {
		return res
	}
	for k := 1; k <= n && len(res.Findings) < 8; k++ {
		run(k)
	}
	res.Sample = map[string]any{"operation": kind, "compression": string(comp), "call_positions": n}
	return res
}

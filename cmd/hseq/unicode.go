package main

import (
	"fmt"
	"reflect"
	"strings"
	"unicode"
	"unicode/utf8"

	bs "github.com/danthegoodman1/bloomsearch"
)

// specialRunes: every Unicode white-space rune, the runes next to each of them (code point
// and UTF-8 lead byte neighbours), invisible runes that are NOT white space, and runes whose
// lower-casing changes their encoded length or class.
func specialRunes() []rune {
	seen := map[rune]bool{}
	var out []rune
	add := func(r rune) {
		if r < 0 || r > unicode.MaxRune || (r >= 0xD800 && r <= 0xDFFF) || seen[r] {
			return
		}
		seen[r] = true
		out = append(out, r)
	}
	for r := rune(0); r <= unicode.MaxRune; r++ {
		if unicode.IsSpace(r) {
			add(r - 1)
			add(r)
			add(r + 1)
		}
	}
	for _, r := range []rune{0x1C, 0x1F, 0x7F, 0x80, 0x9F, 0xAD, 0x180E, 0x200B, 0x200C, 0x200D, 0x2060, 0xFEFF, 0x2FFF, 0x3001, 0x303F, 0xE000, 0xFFFD, 0x10000,
		'İ', 'ı', 'ẞ', 'ß', 'K', 'Å', 'Σ', 'ς', 'ǅ', 'Ǆ', 'Ⱥ', 'ⱥ', 'Ⱦ', 'ſ', 'Ω', 'Ａ', '𐐀'} {
		add(r)
	}
	return out
}

func unicodeRows() []map[string]any {
	var rows []map[string]any
	for _, r := range specialRunes() {
		s := string(r)
		rows = append(rows, map[string]any{"w": "p" + s + "q"})
		rows = append(rows, map[string]any{"w": s + "Q" + s + s + "R", "n": map[string]any{"v": "k" + s}})
	}
	return rows
}

// allRunesCase compares the engine's internal word splitter / case folder with the
// documented tokenizer (strings.Fields(strings.ToLower(v))) and with the exported
// BasicWhitespaceLowerTokenizer for every rune in four positions, every pair of special
// runes, and ill-formed UTF-8.
func allRunesCase() CaseResult {
	var res CaseResult
	bad := 0
	chk := func(text string) {
		res.Evals++
		want := strings.Fields(strings.ToLower(text))
		if want == nil {
			want = []string{}
		}
		got := bs.VerifFastTokens(text)
		if !reflect.DeepEqual(got, want) {
			bad++
			if bad <= 3 {
				res.Findings = append(res.Findings, fnd("c01-fast-tokenizer", "the engine's built-in splitter tokenizes %q (% x) as %q, the documented tokenizer gives %q", text, text, got, want))
			}
		}
		exp := bs.BasicWhitespaceLowerTokenizer(text)
		if len(exp) != len(want) || (len(want) > 0 && !reflect.DeepEqual(exp, want)) {
			bad++
			if bad <= 3 {
				res.Findings = append(res.Findings, fnd("c01-exported-tokenizer", "BasicWhitespaceLowerTokenizer(%q) = %q, documented %q", text, exp, want))
			}
		}
	}
	for r := rune(0); r <= unicode.MaxRune; r++ {
		if r >= 0xD800 && r <= 0xDFFF {
			continue
		}
		s := string(r)
		chk("p" + s + "q")
		chk(s + "Q")
		chk("P" + s)
		chk("é" + s + "É" + s)
		res.States++
	}
	sp := specialRunes()
	for _, a := range sp {
		for _, b := range sp {
			chk("x" + string(a) + string(b) + "Y")
		}
	}
	// ill-formed UTF-8: every lead byte alone, truncated and over-long sequences
	for b := 0x80; b <= 0xFF; b++ {
		chk("a" + string([]byte{byte(b)}) + "B")
		chk("a" + string([]byte{byte(b), 0x80}) + "B")
		chk("a " + string([]byte{byte(b), 0x80, 0x80}) + " B")
	}
	for _, bs2 := range [][]byte{{0xE3, 0x80}, {0xE2, 0x80}, {0xC2}, {0xE1, 0x9A}, {0xC0, 0xA0}, {0xE0, 0x80, 0xA0}, {0xED, 0xA0, 0x80}, {0xF4, 0x90, 0x80, 0x80}} {
		chk("a" + string(bs2) + "b")
		chk(string(bs2) + " b")
		chk("a " + string(bs2))
		if !utf8.Valid(bs2) {
			res.States++
		}
	}
	if bad > 3 {
		res.Findings = append(res.Findings, fnd("c01-fast-tokenizer-count", "%d texts tokenized differently in total", bad))
	}
	res.Nontrivial = res.Evals
	_ = fmt.Sprint
	return res
}

package main

import (
	"encoding/json"
	"math"
	"sort"
	"strings"

	bs "github.com/danthegoodman1/bloomsearch"

	"verif/refmodel"
)

// ---- row alphabet (C01/C02/C03/C17/C18) -------------------------------------------

var alphaKeys = []string{"a", "b", "A", "a.b", "a..b", "a.", ".a", ".", "*", "a::b", "é", "k\\", "x y", ""}

func alphaValues() []any {
	return []any{
		"x", "X y", "É  z\t", "", "a::b", "<&>", "tab\there\nnl", "ünï cödé", "ǅx", "İstanbul", "x y", " nb",
		7, math.Copysign(0, -1), int64(9007199254740993), float64(1e21), 1.5, uint64(math.MaxUint64), int8(-3), float32(0.1), 1e-7,
		true, false, nil,
		map[string]any{}, []any{},
		map[string]any{"b": "q"}, map[string]any{"b": nil}, map[string]any{"a.b": "w"},
		[]any{"x", "y z"}, []any{1, "x", nil, true}, []any{map[string]any{"u": "x"}, map[string]any{"u": "y z"}}, []any{[]any{1, 2}, []any{"x"}},
		json.RawMessage(`{"d":1,"d":"two"}`), json.RawMessage(`"escA\n\/"`), json.RawMessage(`1.50`), json.RawMessage(`1E2`),
		json.RawMessage(`[1,{"z":null}]`), json.Number("10.0"),
	}
}

// alphaRows builds the row corpus: every key x value, nested forms, arrays, multi-key
// collisions and deliberate duplicates; deduplicated by marshaled bytes except for the
// explicit duplicates.
func alphaRows() []map[string]any {
	var rows []map[string]any
	seen := map[string]bool{}
	add := func(r map[string]any) {
		b, err := json.Marshal(r)
		if err != nil {
			return
		}
		if seen[string(b)] {
			return
		}
		seen[string(b)] = true
		rows = append(rows, r)
	}
	vals := alphaValues()
	for _, k := range alphaKeys {
		for _, v := range vals {
			add(map[string]any{k: v})
		}
	}
	for _, k1 := range []string{"a", "a.b", ".", "", "é"} {
		for _, k2 := range []string{"b", "a.", "", "c.d"} {
			for _, v := range []any{"x", 7, nil, map[string]any{}, []any{"p q"}} {
				add(map[string]any{k1: map[string]any{k2: v}})
			}
		}
	}
	add(map[string]any{"a": "x", "b": "y"})
	add(map[string]any{"a": "x y", "a.b": "x"})
	add(map[string]any{"a": map[string]any{"b": "q"}, "a.b": "r"})
	add(map[string]any{"a": map[string]any{"b": map[string]any{"c": "deep x"}}})
	add(map[string]any{"a": []any{map[string]any{"b": []any{map[string]any{"c": "arr deep"}}}}})
	add(map[string]any{"level": "error", "service": "auth", "message": "login failed", "user_id": 123})
	add(map[string]any{"level": "info", "service": "payment", "message": "payment processed", "amount": 50.00})
	add(map[string]any{"c": "z1", "a": 1, "b": "y"})
	add(map[string]any{"tags": []any{"admin", "user"}, "user": map[string]any{"name": "john", "age": 30}})
	// deliberate duplicates (multiplicity)
	for i := 0; i < 3; i++ {
		rows = append(rows, map[string]any{"dup": "same row"})
	}
	rows = append(rows, map[string]any{"a": "x"})
	return rows
}

// ---- custom tokenizers ---------------------------------------------------------------

type namedTok struct {
	name string
	eng  bs.ValueTokenizerFunc
	ref  refmodel.Tokenizer
}

func tokenizers() []namedTok {
	dash := func(s string) []string {
		var out []string
		for _, p := range strings.Split(s, "-") {
			if p != "" {
				out = append(out, p)
			}
		}
		return out
	}
	ident := func(s string) []string { return []string{s} }
	none := func(s string) []string { return nil }
	return []namedTok{
		{"default", bs.BasicWhitespaceLowerTokenizer, refmodel.DefaultTokenizer},
		{"dash", dash, dash},
		{"identity", ident, ident},
		{"none", none, none},
	}
}

// ---- atomic conditions ---------------------------------------------------------------

type atom struct {
	name  string
	bloom *bs.BloomExpression
	regex *bs.RegexExpression
}

func (a atom) query() *bs.Query {
	q := &bs.Query{}
	if a.bloom != nil {
		q.Bloom = &bs.BloomQuery{Expression: a.bloom}
	}
	if a.regex != nil {
		q.Regex = &bs.RegexQuery{Expression: a.regex}
	}
	return q
}

// atomsFor derives the condition alphabet from the reference view of the rows: every path,
// token and (path, token) pair that occurs, plus near misses.
func atomsFor(rows []StoredRow, tok refmodel.Tokenizer) []atom {
	paths, tokens, pairs := map[string]bool{}, map[string]bool{}, map[string]bool{}
	for _, r := range rows {
		f, t, _ := r.Info.Entries(tok)
		for p := range f {
			paths[p] = true
		}
		for x := range t {
			tokens[x] = true
		}
		for _, l := range r.Info.Leaves {
			if !l.HasText {
				continue
			}
			for _, x := range tok(l.Text) {
				pairs[l.Path+"\x00"+x] = true
			}
		}
	}
	// near misses
	for _, p := range refmodel.SortedKeys(paths) {
		paths[p+"."] = true
		paths[strings.ToUpper(p)] = true
		if len(p) > 1 {
			paths[p[:len(p)-1]] = true
		}
		paths[p+".zz"] = true
	}
	paths[""] = true
	paths["nope"] = true
	for _, t := range refmodel.SortedKeys(tokens) {
		tokens[strings.ToUpper(t)] = true
		tokens[t+"x"] = true
	}
	tokens[""] = true
	tokens["x y"] = true
	common := []string{"x", "7", "true", "q", ""}
	var out []atom
	for _, p := range refmodel.SortedKeys(paths) {
		e := bs.Field(p)
		out = append(out, atom{name: "Field(" + p + ")", bloom: &e})
	}
	for _, t := range refmodel.SortedKeys(tokens) {
		e := bs.Token(t)
		out = append(out, atom{name: "Token(" + t + ")", bloom: &e})
	}
	ps := refmodel.SortedKeys(pairs)
	for _, pt := range ps {
		i := strings.Index(pt, "\x00")
		e := bs.FieldToken(pt[:i], pt[i+1:])
		out = append(out, atom{name: "FieldToken(" + pt[:i] + "," + pt[i+1:] + ")", bloom: &e})
	}
	for _, p := range refmodel.SortedKeys(paths) {
		for _, t := range common {
			if pairs[p+"\x00"+t] {
				continue
			}
			e := bs.FieldToken(p, t)
			out = append(out, atom{name: "FieldToken(" + p + "," + t + ")", bloom: &e})
		}
	}
	regexes := []string{"^x$", "(?i)x", ".", "^$", `\d+`, "^-0$", "q|w"}
	for _, p := range refmodel.SortedKeys(paths) {
		for _, re := range regexes {
			e := bs.FieldRegex(p, re)
			out = append(out, atom{name: "FieldRegex(" + p + "," + re + ")", regex: &e})
		}
	}
	return out
}

// ---- small tree alphabets (C01 sample / C25 full) ------------------------------------

func bloomLeaves() []bs.BloomExpression {
	return []bs.BloomExpression{
		bs.Field("a"), bs.Token("x"), bs.FieldToken("b", "y"),
		{ExpressionType: bs.BloomExpressionCondition},                                                           // nil condition = true
		{ExpressionType: bs.BloomExpressionCondition, Condition: &bs.BloomCondition{Type: "WEIRD", Field: "a"}}, // unknown condition = false
		{ExpressionType: bs.BloomExpressionAnd},                                                                 // empty AND = true
		{ExpressionType: bs.BloomExpressionOr},                                                                  // empty OR = false
		{ExpressionType: "XOR", Children: []bs.BloomExpression{bs.Field("a")}},                                  // unknown node = false
	}
}

func regexLeaves() []bs.RegexExpression {
	return []bs.RegexExpression{
		bs.FieldRegex("c", "^z"), bs.FieldRegex("a", "1"),
		{ExpressionType: bs.RegexExpressionCondition},
		{ExpressionType: bs.RegexExpressionAnd},
		{ExpressionType: bs.RegexExpressionOr},
		bs.FieldRegex("", "."),
	}
}

// truthCorpus: 16 rows in which Field(a), Token(x), FieldToken(b,y), FieldRegex(c,^z)
// take every combination of truth values.
func truthCorpus() []map[string]any {
	var rows []map[string]any
	for m := 0; m < 16; m++ {
		r := map[string]any{"id": m}
		if m&1 != 0 {
			r["a"] = 1
		}
		if m&2 != 0 {
			r["t"] = "x"
		}
		if m&4 != 0 {
			r["b"] = "y"
		}
		if m&8 != 0 {
			r["c"] = "z1"
		}
		rows = append(rows, r)
	}
	return rows
}

func sortedStrings(m map[string]bool) []string {
	out := make([]string, 0, len(m))
	for k := range m {
		out = append(out, k)
	}
	sort.Strings(out)
	return out
}

package main

import (
	"sync/atomic"
	"github.com/bits-and-blooms/bloom/v3"
	"bytes"
	"context"
	"encoding/binary"
	"encoding/json"
	"flag"
	"fmt"
	"hash/crc32"
	"math"
	"os"
	"os/exec"
	"path/filepath"
	"runtime"
	"runtime/debug"
	"sort"
	"strings"
	"syscall"

	bs "github.com/danthegoodman1/bloomsearch"

	"verif/hstore"
	"verif/refmodel"
)

// C19 — corrupted or malformed files fail cleanly and never yield wrong rows.
//
// The parent splits the artefact enumeration into shards; each shard runs in a child
// process (GOMAXPROCS 1, address-space limit, journal of the current artefact) so that a
// panic in an engine goroutine or an absurd allocation is attributed to one artefact
// instead of killing the whole check.

var c19Family = flag.String("c19family", "", "C19 child: artefact family")
var c19Shard = flag.Int("c19shard", 0, "C19 child: shard")
var c19Shards = flag.Int("c19shards", 1, "C19 child: shards")
var c19Comp = flag.String("c19comp", "none", "C19 child: compression of the base file")
var c19Out = flag.String("c19out", "", "C19 child: result file")
var c19NoHashFlag = flag.Bool("c19nohash", false, "C19 child: base file without row data hashes")
var c19NoHash bool

// c19Twins selects the base file whose two blocks have identical extents (set from the
// compression argument's "-twins" suffix in the child).
var c19Twins bool

type c19base struct {
	noHash bool // blocks carry no row data hash: content oracles are off (corruption is undetectable), only cleanliness is asserted
	data   []byte
	md     *bs.FileMetadata
	rows   map[string]int // canonical rows written
	meta   refmodel.MetaJSON
}

// c19BigBase: a file built from FILE_FORMAT.md whose middle block carries a filter section
// larger than the reader's 4 MiB chunk target (a token filter sized for 4.2 M entries), so
// that framing fields can point into, across and past a section that is read on its own.
var c19OutSeq atomic.Int64 // output files of concurrent re-runs must not collide

func c19BigBase() (*c19base, error) {
	groups := [][]map[string]any{
		{{"id": 1, "p": "a", "msg": "alpha one"}, {"id": 2, "p": "a", "msg": "beta two"}, {"id": 3, "p": "a", "msg": "gamma"}},
		{{"id": 4, "p": "b", "msg": "alpha four"}, {"id": 5, "p": "b", "msg": "delta"}, {"id": 6, "p": "b", "msg": "omega six"}},
		{{"id": 7, "p": "c", "msg": "alpha seven"}, {"id": 8, "p": "c", "msg": "dalet"}},
	}
	b := &c19base{rows: map[string]int{}}
	var file bytes.Buffer
	var blocks []bs.DataBlockMetadata
	var sections [][]byte
	fileF, fileT, fileFT := map[string]bool{}, map[string]bool{}, map[string]bool{}
	for gi, g := range groups {
		var rd bytes.Buffer
		bf, bt, bft := map[string]bool{}, map[string]bool{}, map[string]bool{}
		for _, r := range g {
			raw, _ := json.Marshal(r)
			info, err := refmodel.Analyze(raw)
			if err != nil {
				return nil, err
			}
			b.rows[info.Canon]++
			f, t, ft := info.Entries(refmodel.DefaultTokenizer)
			for k := range f {
				bf[k], fileF[k] = true, true
			}
			for k := range t {
				bt[k], fileT[k] = true, true
			}
			for k := range ft {
				bft[k], fileFT[k] = true, true
			}
			var l [4]byte
			binary.LittleEndian.PutUint32(l[:], uint32(len(raw)))
			rd.Write(l[:])
			rd.Write(raw)
		}
		blocks = append(blocks, bs.DataBlockMetadata{
			RowDataOffset: file.Len(), RowDataSize: rd.Len(), Rows: len(g), UncompressedSize: rd.Len(), PartitionID: fmt.Sprint(g[0]["p"]),
			Compression: bs.CompressionNone, BloomFalsePositiveRate: 0.01,
			RowDataHash: crc32.Checksum(rd.Bytes(), crc32.MakeTable(crc32.Castagnoli)), HasRowDataHash: true,
		})
		file.Write(rd.Bytes())
		tokens := sizedFilter(bt, 0.01)
		if gi == 1 {
			tokens = bloom.NewWithEstimates(4_200_000, 0.01) // ~5 MB of filter bits
			for e := range bt {
				tokens.AddString(e)
			}
		}
		sections = append(sections, encodeSection(sizedFilter(bf, 0.01), tokens, sizedFilter(bft, 0.01)))
	}
	regionOffset := file.Len()
	for i := range blocks {
		blocks[i].BloomFilterOffset = file.Len()
		blocks[i].BloomFilterSize = len(sections[i])
		file.Write(sections[i])
	}
	md := bs.FileMetadata{BlockFilterRegionOffset: regionOffset, BlockFilterRegionSize: file.Len() - regionOffset, DataBlocks: blocks,
		BloomFilters: bs.BloomFilters{FieldBloomFilter: sizedFilter(fileF, 0.01), TokenBloomFilter: sizedFilter(fileT, 0.01), FieldTokenBloomFilter: sizedFilter(fileFT, 0.01)}}
	if err := bs.WriteFileFooter(&file, &md); err != nil {
		return nil, err
	}
	b.data = append([]byte(nil), file.Bytes()...)
	parsed, _, err := bs.ReadFileMetadata(bytes.NewReader(b.data))
	if err != nil {
		return nil, fmt.Errorf("big base does not read back: %v", err)
	}
	b.md = parsed
	pf, err := refmodel.ParseFile(b.data)
	if err != nil {
		return nil, fmt.Errorf("big base does not parse independently: %v", err)
	}
	b.meta = pf.Meta
	return b, nil
}

var c19BaseTries int

func c19BaseFile(comp bs.CompressionType) (*c19base, error) {
	if comp == "big" {
		return c19BigBase()
	}
	if strings.HasSuffix(string(comp), "-twins") {
		c19Twins = true
		comp = bs.CompressionType(strings.TrimSuffix(string(comp), "-twins"))
	}
	cfg := quietConfig()
	cfg.RowDataCompression = comp
	cfg.ZstdCompressionLevel = 3
	cfg.BloomFalsePositiveRate = 0.01
	cfg.PartitionFunc = func(r map[string]any) string { s, _ := r["p"].(string); return s }
	w, err := newWorld(cfg, nil)
	if err != nil {
		return nil, err
	}
	defer w.Close()
	rows := []map[string]any{
		{"id": 1, "p": "a", "msg": "alpha one"}, {"id": 2, "p": "a", "msg": "beta two"}, {"id": 3, "p": "a", "msg": "gamma"},
		{"id": 4, "p": "b", "msg": "alpha four"}, {"id": 5, "p": "b", "msg": "delta"}, {"id": 6, "p": "b", "msg": "omega six"},
	}
	if c19Twins {
		// two blocks of identical shape: same row count, same compressed and uncompressed size
		rows = []map[string]any{
			{"id": 1, "p": "a", "msg": "alpha one"}, {"id": 2, "p": "a", "msg": "betas two"}, {"id": 3, "p": "a", "msg": "gamma"},
			{"id": 4, "p": "b", "msg": "omega six"}, {"id": 5, "p": "b", "msg": "zetas ten"}, {"id": 6, "p": "b", "msg": "delta"},
		}
	}
	if err := w.Put(rows); err != nil {
		return nil, err
	}
	ptr := w.Meta.Pointers()[0]
	data, _ := w.Data.Bytes(ptr)
	md, _ := w.Meta.Metadata(ptr)
	// the engine writes a flush's partitions in map order: take the layout with partition "a"
	// first, so that an artefact id means the same bytes in every run (re-runs, replays)
	if len(md.DataBlocks) == 2 && md.DataBlocks[0].PartitionID != "a" && c19BaseTries < 200 {
		c19BaseTries++
		return c19BaseFile(comp)
	}
	b := &c19base{data: append([]byte(nil), data...), md: &md, rows: map[string]int{}}
	for i := range w.Rows {
		b.rows[w.Rows[i].Info.Canon]++
	}
	pf, err := refmodel.ParseFile(data)
	if err != nil {
		return nil, err
	}
	b.meta = pf.Meta
	if strings.HasSuffix(string(comp), "") && c19NoHash {
		// a legitimate file without row data hashes (HasRowDataHash=false): corruption of row
		// data then reaches the decompressors and the row scanner instead of the CRC check
		m := b.meta
		m.DataBlocks = append([]refmodel.BlockJSON(nil), b.meta.DataBlocks...)
		for i := range m.DataBlocks {
			m.DataBlocks[i].HasRowDataHash, m.DataBlocks[i].RowDataHash = false, 0
		}
		b.data = b.reframe(m)
		b.meta = m
		md2, _, err := bs.ReadFileMetadata(bytes.NewReader(b.data))
		if err != nil {
			return nil, err
		}
		b.md = md2
		b.noHash = true
	}
	// block order in the file follows map iteration order in the engine; make the base
	// deterministic by sorting on partition (rebuilding is unnecessary: only offsets differ)
	return b, nil
}

// boundaries returns the structural offsets of the base file.
func (b *c19base) boundaries() []int {
	set := map[int]bool{0: true, len(b.data): true}
	for _, bl := range b.meta.DataBlocks {
		set[bl.RowDataOffset] = true
		set[bl.RowDataOffset+bl.RowDataSize] = true
		set[bl.BloomFilterOffset] = true
		set[bl.BloomFilterOffset+bl.BloomFilterSize] = true
	}
	n := len(b.data)
	mlen := int(binary.LittleEndian.Uint32(b.data[n-16:]))
	moff := n - 20 - mlen
	set[moff] = true
	set[moff-b.meta.FileFilterSectionSize] = true
	set[n-20], set[n-16], set[n-12], set[n-8] = true, true, true, true
	var out []int
	for k := range set {
		out = append(out, k)
	}
	sort.Ints(out)
	return out
}

// artefact enumeration -------------------------------------------------------------------

type artefact struct {
	id   string
	data []byte
	// metaHeld: metadata a MetaStore would hold for this artefact in the "MetaStore holds the
	// original metadata" flow; nil = use the base's metadata.
	heldMeta *bs.FileMetadata
	// framing: the artefact is the base file with re-written (CRC-consistent) metadata
	framing bool
}

// forEachArtefact calls fn for every artefact of the family whose index falls in the shard.
func forEachArtefact(b *c19base, family string, shard, shards int, fn func(a artefact)) {
	idx := 0
	emit := func(id string, data []byte) {
		if idx%shards == shard {
			fn(artefact{id: id, data: data, framing: strings.HasPrefix(family, "framing")})
		}
		idx++
	}
	n := len(b.data)
	switch family {
	case "bytes":
		for pos := 0; pos < n; pos++ {
			for bit := 0; bit < 8; bit++ {
				d := append([]byte(nil), b.data...)
				d[pos] ^= 1 << bit
				emit(fmt.Sprintf("flip@%d.%d", pos, bit), d)
			}
			for _, v := range []struct {
				n string
				f func(byte) byte
			}{{"zero", func(byte) byte { return 0 }}, {"ff", func(byte) byte { return 0xff }}, {"inc", func(x byte) byte { return x + 1 }}} {
				if v.f(b.data[pos]) == b.data[pos] {
					continue
				}
				d := append([]byte(nil), b.data...)
				d[pos] = v.f(d[pos])
				emit(fmt.Sprintf("%s@%d", v.n, pos), d)
			}
		}
	case "windows":
		for pos := 0; pos < n; pos++ {
			for w := 2; w <= 8 && pos+w <= n; w++ {
				for _, kind := range []string{"zero", "ones", "invert"} {
					d := append([]byte(nil), b.data...)
					changed := false
					for i := pos; i < pos+w; i++ {
						o := d[i]
						switch kind {
						case "zero":
							d[i] = 0
						case "ones":
							d[i] = 0xff
						default:
							d[i] = ^d[i]
						}
						if d[i] != o {
							changed = true
						}
					}
					if changed {
						emit(fmt.Sprintf("%s@%d+%d", kind, pos, w), d)
					}
				}
			}
		}
	case "resize":
		for l := 0; l < n; l++ {
			emit(fmt.Sprintf("truncate@%d", l), append([]byte(nil), b.data[:l]...))
		}
		for _, k := range []int{1, 4, 20, 100} {
			emit(fmt.Sprintf("extend-zero+%d", k), append(append([]byte(nil), b.data...), make([]byte, k)...))
			tail := b.data[n-min(k, n):]
			emit(fmt.Sprintf("extend-tail+%d", k), append(append([]byte(nil), b.data...), tail...))
			magic := bytes.Repeat([]byte("BLOMSRCH"), k/8+1)[:k]
			emit(fmt.Sprintf("extend-magic+%d", k), append(append([]byte(nil), b.data...), magic...))
		}
		bd := b.boundaries()
		var pts []int
		seen := map[int]bool{}
		for _, x := range bd {
			for _, d := range []int{-1, 0, 1} {
				if p := x + d; p >= 0 && p <= n && !seen[p] {
					seen[p] = true
					pts = append(pts, p)
				}
			}
		}
		sort.Ints(pts)
		for _, a := range pts {
			for _, c := range pts {
				if a >= c {
					continue
				}
				// delete [a,c)
				d := append(append([]byte(nil), b.data[:a]...), b.data[c:]...)
				emit(fmt.Sprintf("delete[%d,%d)", a, c), d)
				// duplicate [a,c) in place
				d2 := append(append(append([]byte(nil), b.data[:c]...), b.data[a:c]...), b.data[c:]...)
				emit(fmt.Sprintf("dup[%d,%d)", a, c), d2)
			}
		}
	case "overwrite":
		// a block's row data extent replaced by another block's (individually valid) stream of the
		// same compressed and uncompressed size; only the row data hash can tell
		for i, bi := range b.meta.DataBlocks {
			for j, bj := range b.meta.DataBlocks {
				if i == j || bi.RowDataSize != bj.RowDataSize || bi.UncompressedSize != bj.UncompressedSize {
					continue
				}
				d := append([]byte(nil), b.data...)
				copy(d[bi.RowDataOffset:bi.RowDataOffset+bi.RowDataSize], b.data[bj.RowDataOffset:bj.RowDataOffset+bj.RowDataSize])
				emit(fmt.Sprintf("rowdata[b%d]:=rowdata[b%d]", i, j), d)
			}
		}
	case "framing", "framing-pairs", "framing-struct", "framing-struct-pairs", "framing-negfilter":
		vals := func() []int64 {
			sz := int64(n)
			return []int64{-1, 0, 1, sz - 1, sz, sz + 1, math.MaxInt32, math.MaxInt64, math.MinInt64}
		}()
		structural := strings.HasPrefix(family, "framing-struct")
		if structural {
			// every structural offset of the file and the sizes between them, +-1: fields that
			// pass validation but point into, across or onto another block's extent
			set := map[int64]bool{}
			bd := b.boundaries()
			for _, x := range bd {
				for d := int64(-1); d <= 1; d++ {
					set[int64(x)+d] = true
				}
			}
			for _, bl := range b.meta.DataBlocks {
				for _, x := range []int{bl.BloomFilterSize, bl.RowDataSize, bl.BloomFilterSize / 2, 4 << 20, 4<<20 + 1} {
					set[int64(x)] = true
				}
			}
			vals = vals[:0]
			for v := range set {
				vals = append(vals, v)
			}
			sort.Slice(vals, func(i, j int) bool { return vals[i] < vals[j] })
		}
		type field struct {
			name string
			set  func(m *refmodel.MetaJSON, v int64)
		}
		var fields []field
		fields = append(fields,
			field{"regionOffset", func(m *refmodel.MetaJSON, v int64) { m.BlockFilterRegionOffset = int(v) }},
			field{"regionSize", func(m *refmodel.MetaJSON, v int64) { m.BlockFilterRegionSize = int(v) }},
			field{"fileFilterSize", func(m *refmodel.MetaJSON, v int64) { m.FileFilterSectionSize = int(v) }})
		if structural {
			fields = fields[:2] // the filter region and the blocks' filter sections
		}
		for bi := range b.meta.DataBlocks {
			bi := bi
			if structural {
				fields = append(fields,
					field{fmt.Sprintf("b%d.filterOffset", bi), func(m *refmodel.MetaJSON, v int64) { m.DataBlocks[bi].BloomFilterOffset = int(v) }},
					field{fmt.Sprintf("b%d.filterSize", bi), func(m *refmodel.MetaJSON, v int64) { m.DataBlocks[bi].BloomFilterSize = int(v) }})
				continue
			}
			fields = append(fields,
				field{fmt.Sprintf("b%d.rowOffset", bi), func(m *refmodel.MetaJSON, v int64) { m.DataBlocks[bi].RowDataOffset = int(v) }},
				field{fmt.Sprintf("b%d.rowSize", bi), func(m *refmodel.MetaJSON, v int64) { m.DataBlocks[bi].RowDataSize = int(v) }},
				field{fmt.Sprintf("b%d.filterOffset", bi), func(m *refmodel.MetaJSON, v int64) { m.DataBlocks[bi].BloomFilterOffset = int(v) }},
				field{fmt.Sprintf("b%d.filterSize", bi), func(m *refmodel.MetaJSON, v int64) { m.DataBlocks[bi].BloomFilterSize = int(v) }})
		}
		clone := func() refmodel.MetaJSON {
			m := b.meta
			m.DataBlocks = append([]refmodel.BlockJSON(nil), b.meta.DataBlocks...)
			return m
		}
		if family == "framing-negfilter" {
			// joint assignments: a negative file-filter size (which moves the end of the data
			// area past the file) with one or two other extents enlarged accordingly
			big := []int64{int64(n) + 1, int64(n) + 4096, 96 << 20, 1 << 40, 1 << 61}
			others := append(append([]int64{}, vals...), big...)
			for _, neg := range []int64{-1, -4096, -int64(n), -(96 << 20) - int64(n), -(1 << 41), -(1 << 62), math.MinInt64} {
				for _, f := range fields {
					if f.name == "fileFilterSize" {
						continue
					}
					for _, v := range others {
						m := clone()
						m.FileFilterSectionSize = int(neg)
						f.set(&m, v)
						emit(fmt.Sprintf("fileFilterSize=%d,%s=%d", neg, f.name, v), b.reframe(m))
					}
				}
			}
			// shapes that need several fields at once
			for _, neg := range []int64{-(96 << 20) - int64(n), -(1 << 41), -(1 << 62), math.MinInt64} {
				for _, v1 := range big {
					for _, v2 := range big {
						if v2 > v1 {
							continue
						}
						for bi := range b.meta.DataBlocks {
							// the region and one block's filter section enlarged
							m := clone()
							m.FileFilterSectionSize = int(neg)
							m.BlockFilterRegionSize = int(v1)
							m.DataBlocks[bi].BloomFilterSize = int(v2)
							emit(fmt.Sprintf("fileFilterSize=%d,regionSize=%d,b%d.filterSize=%d", neg, v1, bi, v2), b.reframe(m))
							// the region moved past the file (sections with it) and one block's row data enlarged
							m = clone()
							m.FileFilterSectionSize = int(neg)
							shift := int(v1) - m.BlockFilterRegionOffset
							m.BlockFilterRegionOffset = int(v1)
							for k := range m.DataBlocks {
								m.DataBlocks[k].BloomFilterOffset += shift
							}
							m.DataBlocks[bi].RowDataSize = int(v2)
							emit(fmt.Sprintf("fileFilterSize=%d,region+sections moved to %d,b%d.rowSize=%d", neg, v1, bi, v2), b.reframe(m))
						}
					}
				}
			}
		} else if family == "framing" || family == "framing-struct" {
			for _, f := range fields {
				for _, v := range vals {
					m := clone()
					f.set(&m, v)
					emit(fmt.Sprintf("%s=%d", f.name, v), b.reframe(m))
				}
			}
		} else {
			for i := range fields {
				for j := i + 1; j < len(fields); j++ {
					for _, v1 := range vals {
						for _, v2 := range vals {
							m := clone()
							fields[i].set(&m, v1)
							fields[j].set(&m, v2)
							emit(fmt.Sprintf("%s=%d,%s=%d", fields[i].name, v1, fields[j].name, v2), b.reframe(m))
						}
					}
				}
			}
		}
	}
}

// reframe rebuilds the file with new (CRC-consistent) metadata JSON.
func (b *c19base) reframe(m refmodel.MetaJSON) []byte {
	n := len(b.data)
	mlen := int(binary.LittleEndian.Uint32(b.data[n-16:]))
	moff := n - 20 - mlen
	mb, _ := json.Marshal(m)
	out := append([]byte(nil), b.data[:moff]...)
	out = append(out, mb...)
	var u [4]byte
	binary.LittleEndian.PutUint32(u[:], crc32.Checksum(mb, crc32.MakeTable(crc32.Castagnoli)))
	out = append(out, u[:]...)
	binary.LittleEndian.PutUint32(u[:], uint32(len(mb)))
	out = append(out, u[:]...)
	out = append(out, b.data[n-12:]...)
	return out
}

// exercise runs every reader over one artefact and returns the oracle failures.
func (b *c19base) exercise(a artefact, queries []*bs.Query, exact [][]string) (fails []Finding) {
	rd := bytes.NewReader(a.data)
	add := func(sig, format string, x ...any) {
		fails = append(fails, fnd(sig, "C19 artefact %s: "+format, append([]any{a.id}, x...)...))
	}
	rowOK := func(c string) bool { return b.rows[c] > 0 }
	md, _, err := bs.ReadFileMetadata(rd)
	if err == nil {
		// helpers with the metadata the artefact itself declares
		for i := range md.DataBlocks {
			blk := md.DataBlocks[i]
			if data, err := bs.ReadDataBlockRowData(bytes.NewReader(a.data), &blk); err == nil {
				sc := bs.NewBlockRowScanner(data)
				for {
					rb, ok, err := sc.Next()
					if err != nil || !ok {
						if err == nil && framingMalformed(data) {
							add("c19-scanner-accepts-malformed", "BlockRowScanner reaches the end of block %d without an error although its %d decoded bytes are not a sequence of whole length-prefixed rows", i, len(data))
						}
						break
					}
					info, ierr := refmodel.Analyze(rb)
					if !b.noHash && (ierr != nil || !rowOK(info.Canon)) {
						add("c19-helper-wrong-row", "ReadDataBlockRowData+scanner yields a row that was never written: %q", rb)
						break
					}
				}
			}
			bs.ReadDataBlockBloomFilters(bytes.NewReader(a.data), blk)
		}
	}
	// helpers with the metadata a MetaStore holds for the file (the original one): an extent
	// that does not lie within the artefact cannot be read, so the helper must fail — whatever
	// an earlier read of the same extents (the previous artefact) left in a recycled buffer
	for i := range b.md.DataBlocks {
		blk := b.md.DataBlocks[i]
		if _, ferr := bs.ReadDataBlockBloomFilters(bytes.NewReader(a.data), blk); ferr == nil && blk.BloomFilterSize > 0 && blk.BloomFilterOffset+blk.BloomFilterSize > len(a.data) {
			add("c19-helper-read-past-eof", "ReadDataBlockBloomFilters reads the filter section [%d,+%d) of block %d from a %d-byte file without an error", blk.BloomFilterOffset, blk.BloomFilterSize, i, len(a.data))
		}
		if _, rerr := bs.ReadDataBlockRowData(bytes.NewReader(a.data), &blk); rerr == nil && blk.RowDataOffset+blk.RowDataSize > len(a.data) {
			add("c19-helper-read-past-eof", "ReadDataBlockRowData reads the row data [%d,+%d) of block %d from a %d-byte file without an error", blk.RowDataOffset, blk.RowDataSize, i, len(a.data))
		}
	}
	// queries: (1) the artefact describes itself (FileSystemDataStore-like flow);
	// (2) the MetaStore holds the original metadata, the DataStore serves the artefact
	run := func(flow string, meta *bs.FileMetadata, mustBeExact bool) {
		data, ms := hstore.NewMemData(), hstore.NewMemMeta()
		ptr := data.Put(a.data)
		ms.Update(context.Background(), []bs.WriteOperation{{FileMetadata: meta, FilePointerBytes: []byte(ptr)}}, nil)
		negSeek := false
		data.Hook = &hstore.Hook{Enter: func(op, p string, n int) error {
			if op == "Seek" && n < 0 {
				negSeek = true
			}
			return nil
		}}
		cfg := quietConfig()
		eng, err := bs.NewBloomSearchEngine(cfg, ms, data)
		if err != nil {
			return
		}
		for qi, q := range queries {
			qr := runQuery(eng, q)
			got := countOf(qr.Rows)
			for c, k := range got {
				if !b.noHash && k > b.rows[c] {
					add("c19-query-wrong-row:"+flow, "%s flow, query %d returns row %s %d times (written %d times)", flow, qi, c, k, b.rows[c])
				}
			}
			if mustBeExact && qi == 0 && qr.Err == nil && qr.QueryErr == nil {
				// detectable without any checksum: the stored bytes of an uncompressed block are
				// not a sequence of whole length-prefixed rows, so the match-all scan must fail
				for bi := range meta.DataBlocks {
					blk := &meta.DataBlocks[bi]
					if blk.Compression != bs.CompressionNone || blk.RowDataOffset < 0 || blk.RowDataSize < 0 || blk.RowDataOffset+blk.RowDataSize > len(a.data) {
						continue
					}
					if framingMalformed(a.data[blk.RowDataOffset : blk.RowDataOffset+blk.RowDataSize]) {
						add("c19-malformed-framing-accepted:"+flow, "%s flow, match-all query finished with Err()==nil although the row data of block %d is not a sequence of whole length-prefixed rows", flow, bi)
						break
					}
				}
			}
			if mustBeExact && !b.noHash && qr.Err == nil && qr.QueryErr == nil {
				if miss, extra := diffMultiset(qr.Rows, exact[qi]); len(miss)+len(extra) > 0 {
					add("c19-silent-wrong-answer", "%s flow, query %d finished with Err()==nil but the answer is not the uncorrupted one: missing %s, extra %s", flow, qi, short(miss, 2), short(extra, 2))
				}
			}
		}
		if negSeek {
			add("c19-negative-seek:"+flow, "%s flow: a read seeks to a negative offset", flow)
		}
	}
	if err == nil {
		run("self-described", md, false)
	}
	run("metastore-held", b.md, true)
	if a.framing {
		// (3) a MetaStore that holds the arbitrary metadata itself (nothing has validated it: no
		// ReadFileMetadata stands between it and the readers) over the intact file, and the
		// read helpers called with it
		n := len(a.data)
		mlen := int(binary.LittleEndian.Uint32(a.data[n-16:]))
		var am bs.FileMetadata
		// Only metadata whose size fields stay within the file's length (plus a page) is used
		// here: a MetaStore is the engine's trusted catalogue, the readers cannot know the
		// file's length without it, and how much they allocate for a size the catalogue
		// declares is not something the property speaks about (it bounds allocation for
		// metadata read from the file, flow 1). Offsets are arbitrary.
		sane := func(m *bs.FileMetadata) bool {
			lim := len(b.data) + 4096
			if m.BlockFilterRegionSize > lim {
				return false
			}
			for i := range m.DataBlocks {
				if d := &m.DataBlocks[i]; d.RowDataSize > lim || d.BloomFilterSize > lim || d.UncompressedSize > lim {
					return false
				}
			}
			return true
		}
		if moff := n - 20 - mlen; moff >= 0 && json.Unmarshal(a.data[moff:moff+mlen], &am) == nil && sane(&am) {
			for i := range am.DataBlocks {
				blk := am.DataBlocks[i]
				if data, err := bs.ReadDataBlockRowData(bytes.NewReader(b.data), &blk); err == nil && !b.noHash {
					sc := bs.NewBlockRowScanner(data)
					for {
						rb, ok, err := sc.Next()
						if err != nil || !ok {
							break
						}
						if info, ierr := refmodel.Analyze(rb); ierr != nil || !rowOK(info.Canon) {
							add("c19-helper-wrong-row:metastore-arbitrary", "ReadDataBlockRowData with MetaStore-held metadata yields a row that was never written: %q", rb)
							break
						}
					}
				}
				bs.ReadDataBlockBloomFilters(bytes.NewReader(b.data), blk)
			}
			orig := a.data
			a.data = b.data
			run("metastore-arbitrary", &am, false)
			a.data = orig
		}
	}
	return
}

// framingMalformed is the row data framing of FILE_FORMAT.md read independently: a
// sequence of (uint32 little-endian length, that many bytes) covering d exactly.
func framingMalformed(d []byte) bool {
	for pos := 0; pos < len(d); {
		if len(d)-pos < 4 {
			return true
		}
		l := uint64(binary.LittleEndian.Uint32(d[pos:]))
		pos += 4
		if l > uint64(len(d)-pos) {
			return true
		}
		pos += int(l)
	}
	return false
}

func c19Queries() []*bs.Query {
	return []*bs.Query{nil, bs.NewQuery().Token("alpha").Build(), bs.NewQuery().FieldRegex("msg", "^d").Build()}
}

// c19Child runs one shard; it journals the artefact in flight so a crash is attributable.
func c19Child() {
	c19NoHash = *c19NoHashFlag
	runtime.GOMAXPROCS(1)
	debug.SetGCPercent(100)
	var lim syscall.Rlimit
	lim.Cur, lim.Max = 6<<30, 6<<30
	syscall.Setrlimit(syscall.RLIMIT_AS, &lim)
	base, err := c19BaseFile(bs.CompressionType(*c19Comp))
	type childOut struct {
		Evals, Nontrivial int
		Findings          []Finding
		MaxAllocRatio     float64
		Sample            string
	}
	var out childOut
	if err != nil {
		out.Findings = append(out.Findings, fnd("setup", "base file: %v", err))
	} else {
		queries := c19Queries()
		// exact answers on the uncorrupted file
		exact := make([][]string, len(queries))
		{
			data, ms := hstore.NewMemData(), hstore.NewMemMeta()
			ptr := data.Put(base.data)
			ms.Update(context.Background(), []bs.WriteOperation{{FileMetadata: base.md, FilePointerBytes: []byte(ptr)}}, nil)
			eng, _ := bs.NewBloomSearchEngine(quietConfig(), ms, data)
			for i, q := range queries {
				exact[i] = runQuery(eng, q).Rows
			}
		}
		// the re-framing used by the framing families must itself be a faithful footer
		if md2, _, err := bs.ReadFileMetadata(bytes.NewReader(base.reframe(base.meta))); err != nil || len(md2.DataBlocks) != len(base.md.DataBlocks) {
			out.Findings = append(out.Findings, fnd("harness-reframe", "re-framed base file does not read back: %v", err))
		} else if fs := base.exercise(artefact{id: "reframed-identity", data: base.reframe(base.meta)}, queries, exact); len(fs) > 0 {
			out.Findings = append(out.Findings, fnd("harness-reframe", "re-framed base file misbehaves: %s", fs[0].Msg))
		}
		journal, _ := os.Create(*c19Out + ".journal")
		var m0, m1 runtime.MemStats
		forEachArtefact(base, *c19Family, *c19Shard, *c19Shards, func(a artefact) {
			journal.Truncate(0)
			journal.WriteAt([]byte(a.id), 0)
			runtime.ReadMemStats(&m0)
			fs := func() (fs []Finding) {
				defer func() {
					if r := recover(); r != nil {
						fs = append(fs, fnd("c19-panic", "C19 artefact %s: panic: %v\n%s", a.id, r, debug.Stack()))
					}
				}()
				return base.exercise(a, queries, exact)
			}()
			runtime.ReadMemStats(&m1)
			out.Evals++
			if !bytes.Equal(a.data, base.data) {
				out.Nontrivial++
			}
			alloc := float64(m1.TotalAlloc - m0.TotalAlloc)
			bound := 256*float64(len(a.data)+len(base.data)) + float64(8<<20)
			if r := alloc / bound; r > out.MaxAllocRatio {
				out.MaxAllocRatio = r
			}
			if alloc > bound {
				fs = append(fs, fnd("c19-allocation", "C19 artefact %s: %.0f bytes allocated while reading a %d-byte file (bound %.0f)", a.id, alloc, len(a.data), bound))
			}
			if len(out.Findings) < 30 {
				out.Findings = append(out.Findings, fs...)
			}
			out.Sample = a.id
		})
		journal.Close()
		os.Remove(*c19Out + ".journal")
	}
	b, _ := json.Marshal(out)
	os.WriteFile(*c19Out, b, 0o644)
}

func c19Parent(family string, comp string, shard, shards int) CaseResult {
	noHash := strings.HasSuffix(comp, "-nohash")
	comp = strings.TrimSuffix(comp, "-nohash")
	var res CaseResult
	self, _ := os.Executable()
	dir := *scratch
	if dir == "" {
		dir = os.TempDir()
	}
	outFile := filepath.Join(dir, fmt.Sprintf("c19-%s-%s-%v-%d-%d.json", family, comp, noHash, shard, c19OutSeq.Add(1)))
	stdout := outFile + ".stdout"
	so, _ := os.Create(stdout)
	cmd := exec.Command(self, "-mode", "C19child", "-c19family", family, "-c19comp", comp, "-c19shard", fmt.Sprint(shard), "-c19shards", fmt.Sprint(shards), "-c19out", outFile, fmt.Sprintf("-c19nohash=%v", noHash))
	cmd.Stdout, cmd.Stderr = so, so
	err := cmd.Run()
	so.Close()
	defer os.Remove(stdout)
	defer os.Remove(outFile)
	b, rerr := os.ReadFile(outFile)
	if err != nil || rerr != nil {
		j, _ := os.ReadFile(outFile + ".journal")
		os.Remove(outFile + ".journal")
		tail, _ := os.ReadFile(stdout)
		t := string(tail)
		if len(t) > 1500 {
			t = t[:1500]
		}
		sig := "c19-process-crash"
		if strings.Contains(t, "out of memory") || strings.Contains(t, "cannot allocate") {
			sig = "c19-out-of-memory"
		}
		res.Findings = append(res.Findings, fnd(sig, "C19 %s/%s shard %d: the reader process died while handling artefact %q (%v): %s", family, comp, shard, j, err, t))
		return res
	}
	var out struct {
		Evals, Nontrivial int
		Findings          []Finding
		MaxAllocRatio     float64
		Sample            string
	}
	json.Unmarshal(b, &out)
	res.Evals, res.Nontrivial, res.Findings = out.Evals, out.Nontrivial, out.Findings
	res.Sample = map[string]any{"family": family, "compression": comp, "last_artefact": out.Sample, "max_alloc_over_bound": out.MaxAllocRatio}
	return res
}

func init() {
	modes["C19child"] = ModeSpec{Cases: func(string) []Case { return nil }}
	modes["C19"] = ModeSpec{
		Cases: func(tier string) []Case {
			comps := []string{"snappy", "zstd", "none-nohash", "snappy-nohash", "zstd-nohash"}
			fams := map[string]int{"bytes": 8, "windows": 8, "resize": 4, "framing": 1, "framing-negfilter": 2}
			if tier == "thorough" {
				comps = []string{"none", "snappy", "zstd", "none-nohash", "snappy-nohash", "zstd-nohash"}
				fams["framing-pairs"] = 8
			}
			var cs []Case
			// the file with a filter section beyond the chunk target: framing families only
			bigFams := map[string]int{"framing": 1, "framing-struct": 4}
			if tier == "thorough" {
				bigFams["framing-struct-pairs"] = 16
			}
			for f, n := range bigFams {
				for s := 0; s < n; s++ {
					f, s, n := f, s, n
					cs = append(cs, Case{ID: fmt.Sprintf("%s/big/%d", f, s), Run: func() CaseResult { return c19Parent(f, "big", s, n) }})
				}
			}
			fams["framing-struct"] = 1
			for _, c := range []string{"none-twins", "snappy-twins"} {
				c := c
				cs = append(cs, Case{ID: "overwrite/" + c, Run: func() CaseResult {
					r := c19Parent("overwrite", c, 0, 1)
					if r.Evals == 0 && len(r.Findings) == 0 {
						r.Capped = "the twin blocks of the " + c + " base do not have equal extents: no overwrite artefact could be built"
					}
					return r
				}})
			}
			for _, c := range comps {
				names := make([]string, 0)
				for f := range fams {
					names = append(names, f)
				}
				sort.Strings(names)
				for _, f := range names {
					if strings.HasSuffix(c, "-nohash") && strings.HasPrefix(f, "framing") {
						continue
					}
					for s := 0; s < fams[f]; s++ {
						c, f, s, n := c, f, s, fams[f]
						cs = append(cs, Case{ID: fmt.Sprintf("%s/%s/%d", f, c, s), Run: func() CaseResult { return c19Parent(f, c, s, n) }})
					}
				}
			}
			return cs
		},
		Rule:        "engine-written base file (2 blocks x 3 rows) per compression; exhaustively: every byte x {8 single-bit flips, 0x00, 0xFF, +1}; every 2-8 byte window x {zero, ones, inverted}; every truncation length; extensions; deletions and duplications between all pairs of structural boundaries ±1; a block's row data overwritten by a sibling block's valid stream of identical extent (twin-block base, uncompressed and snappy); CRC-consistent footers with every framing field (and, thorough, every pair) set to boundary values, and with the filter region / every filter section offset and size set to every structural offset and extent of the file +-1 (also on a file whose middle block's filter section exceeds the 4 MiB chunk target; thorough: every pair); each artefact goes through ReadFileMetadata, the block helpers, a scan, and 3 queries in two flows (file describes itself / MetaStore holds the original metadata); oracle: no panic, no negative seek, allocation <= 256 x file size + 8 MiB, rows ⊆ written, exact-or-error when the MetaStore holds the metadata; independently of checksums, decoded or stored-uncompressed row data that is not a sequence of whole length-prefixed rows must make the scanner and the match-all query report an error",
		Assumptions: []string{"UncompressedSize is not in the property's list of arbitrary framing fields and is left valid"},
	}
}

package main

import (
	"context"
	"flag"
	"fmt"
	"os"
	"os/exec"
	"path/filepath"
	"time"

	bs "github.com/danthegoodman1/bloomsearch"

	"verif/hstore"
)

// C27 — silent by default: engine operations (including failure and deadline paths) with
// a nil Logger write nothing to the process's standard streams. Each scenario runs in a
// child process whose descriptors 1 and 2 are files; both must be empty afterwards.

var c27Scenario = flag.String("c27scenario", "", "C27 child scenario")

func c27Child() {
	// Nothing in here may print: the parent inspects the raw descriptors. The number of
	// engine runs goes to a side file named by the parent.
	runs := 0
	defer func() {
		if p := os.Getenv("C27_COUNT_FILE"); p != "" {
			os.WriteFile(p, []byte(fmt.Sprint(runs)), 0o644)
		}
	}()
	switch *c27Scenario {
	case "flush-fault-pairs":
		v := c06variant{true, false, false, bs.CompressionNone}
		_, n, _ := c06Run(v, nil)
		for k := 1; k <= n; k++ {
			for l := k + 1; l <= n+2; l++ {
				c06Run(v, map[int]bool{k: true, l: true})
				runs++
			}
		}
	case "merge-fault-pairs":
		for _, v := range []c13variant{{true, 4}, {false, 3}} {
			_, n, _ := c13Run(v, nil, -1)
			for k := 1; k <= n; k++ {
				for l := k + 1; l <= n+3; l++ {
					c13Run(v, map[int]bool{k: true, l: true}, -1)
					runs++
				}
			}
		}
	case "unobserved-flush-faults":
		// batches ingested without a done channel: nobody is told when their flush fails
		for _, fail := range []string{"CreateFile", "Write", "Close", "Update"} {
			for _, mode := range []string{"threshold", "stop-drain", "stop-deadline"} {
				data, meta := hstore.NewMemData(), hstore.NewMemMeta()
				block := make(chan struct{})
				h := &hstore.Hook{Enter: func(op, ptr string, n int) error {
					if op == fail {
						if mode == "stop-deadline" {
							<-block
							return nil
						}
						return fmt.Errorf("injected: %s failed", op)
					}
					return nil
				}}
				data.Hook, meta.Hook = h, h
				cfg := quietConfig()
				cfg.IngestBufferSize = 2
				if mode == "threshold" {
					cfg.MaxBufferedRows = 2
				}
				if mode == "stop-deadline" {
					cfg.MaxBufferedRows = 1
				}
				eng, err := bs.NewBloomSearchEngine(cfg, meta, data)
				if err != nil {
					os.Exit(3)
				}
				eng.Start()
				for i := 0; i < 4; i++ {
					ctx, cancel := context.WithTimeout(context.Background(), 50*time.Millisecond)
					eng.IngestRows(ctx, []map[string]any{{"i": i}}, nil)
					cancel()
				}
				time.Sleep(20 * time.Millisecond)
				ctx, cancel := context.WithTimeout(context.Background(), 150*time.Millisecond)
				eng.Stop(ctx)
				cancel()
				close(block)
				time.Sleep(30 * time.Millisecond)
				runs++
			}
		}
	case "handle-close-faults":
		// closing a read handle fails (every k-th close, k = 1..4, and every close)
		cfg := quietConfig()
		cfg.BloomFalsePositiveRate = 0.01
		cfg.PartitionFunc = partByShape
		w, err := newWorld(cfg, nil)
		if err != nil {
			os.Exit(3)
		}
		putChunks(w, alphaRows()[:120], 30)
		for k := 0; k <= 4; k++ {
			n := 0
			w.Data.Hook = &hstore.Hook{Enter: func(op, ptr string, _ int) error {
				if op == "HandleClose" {
					n++
					if k == 0 || n%k == 0 {
						return fmt.Errorf("injected: read handle close failed")
					}
				}
				return nil
			}}
			for _, q := range []*bs.Query{nil, bs.NewQuery().Field("a").Build(), bs.NewQuery().Token("x").Build(), bs.NewQuery().FieldRegex("a", "x").Build()} {
				w.Query(q)
				runs++
			}
			w.Eng.Merge(context.Background())
			runs++
		}
		w.Data.Hook = nil
		w.Close()
	case "query-faults":
		for _, lay := range layoutsFor("quick") {
			if lay.name == "external-writer" || lay.name == "chunks7-snappy-part" {
				r := c23FaultCase("quick", lay, 0, 1)
				runs += r.Evals
			}
		}
	case "flush-faults":
		for _, v := range []c06variant{{true, false, false, bs.CompressionNone}, {false, true, true, bs.CompressionSnappy}} {
			_, n, _ := c06Run(v, nil)
			for k := 1; k <= n; k++ {
				c06Run(v, map[int]bool{k: true})
				runs++
			}
		}
	case "merge-faults":
		for _, v := range []c13variant{{true, 4}, {false, 3}} {
			_, n, _ := c13Run(v, nil, -1)
			for k := 1; k <= n; k++ {
				c13Run(v, map[int]bool{k: true}, -1)
				runs++
			}
			c13Run(v, nil, 1)
		}
	case "corrupt-files":
		base, err := c19BaseFile(bs.CompressionSnappy)
		if err != nil {
			os.Exit(3)
		}
		qs := c19Queries()
		exact := make([][]string, len(qs))
		n := 0
		forEachArtefact(base, "resize", 0, 1, func(a artefact) {
			n++
			if n%7 == 0 {
				base.exercise(a, qs, exact)
			}
		})
		forEachArtefact(base, "framing", 0, 1, func(a artefact) { base.exercise(a, qs, exact) })
	case "missing-filters":
		cfg := quietConfig()
		cfg.BloomFalsePositiveRate = 0.01
		w, err := newWorld(cfg, nil)
		if err != nil {
			os.Exit(3)
		}
		externalFiles(w, alphaRows()[:200], false)
		for _, q := range []*bs.Query{nil, bs.NewQuery().Field("a").Build(), bs.NewQuery().Token("x").Build(), bs.NewQuery().FieldToken("a", "x").Build(), bs.NewQuery().FieldRegex("a", "x").Build()} {
			w.Query(q)
		}
		w.Eng.Merge(context.Background())
		w.Close()
	case "stop-deadline":
		for _, wedge := range []string{"CreateFile", "Write", "Close", "Update"} {
			data, meta := hstore.NewMemData(), hstore.NewMemMeta()
			block := make(chan struct{})
			h := &hstore.Hook{Enter: func(op, ptr string, n int) error {
				if op == wedge {
					<-block
				}
				return nil
			}}
			data.Hook, meta.Hook = h, h
			cfg := quietConfig()
			cfg.IngestBufferSize = 1
			cfg.MaxBufferedRows = 1
			eng, err := bs.NewBloomSearchEngine(cfg, meta, data)
			if err != nil {
				os.Exit(3)
			}
			eng.Start()
			for i := 0; i < 3; i++ {
				ctx, cancel := context.WithTimeout(context.Background(), 50*time.Millisecond)
				eng.IngestRows(ctx, []map[string]any{{"i": i}}, make(chan error, 1))
				cancel()
			}
			ctx, cancel := context.WithTimeout(context.Background(), 100*time.Millisecond)
			eng.Stop(ctx)
			cancel()
			close(block)
			time.Sleep(50 * time.Millisecond)
		}
	case "lifecycle":
		cfg := quietConfig()
		cfg.MaxBufferedRows = 2
		w, err := newWorld(cfg, nil)
		if err != nil {
			os.Exit(3)
		}
		for i := 0; i < 5; i++ {
			w.Ingest([]map[string]any{{"i": i}, {"j": i}})
		}
		w.Ingest([]map[string]any{{"bad": func() {}}})
		w.Ingest(nil)
		w.Eng.Flush(context.Background())
		w.Eng.Merge(context.Background())
		w.Query(bs.NewQuery().FieldRegex("i", "(").Build())
		w.Query(nil)
		w.Close()
		w.Eng.Stop(context.Background())
		w.Eng.IngestRows(context.Background(), nil, nil)
	default:
		os.Exit(4)
	}
}

func c27Parent(scn string) CaseResult {
	var res CaseResult
	self, _ := os.Executable()
	dir := *scratch
	if dir == "" {
		dir = os.TempDir()
	}
	// a directory of its own: re-runs of a failing case go in parallel
	dir, derr := os.MkdirTemp(dir, "c27-"+scn+"-")
	if derr != nil {
		res.Capped = "scratch directory: " + derr.Error()
		return res
	}
	defer os.RemoveAll(dir)
	so, se := filepath.Join(dir, "c27-"+scn+".stdout"), filepath.Join(dir, "c27-"+scn+".stderr")
	fo, _ := os.Create(so)
	fe, _ := os.Create(se)
	cmd := exec.Command(self, "-mode", "C27child", "-c27scenario", scn)
	cf := filepath.Join(dir, "c27-"+scn+".count")
	cmd.Env = append(os.Environ(), "C27_COUNT_FILE="+cf)
	defer os.Remove(cf)
	cmd.Stdout, cmd.Stderr = fo, fe
	err := cmd.Run()
	fo.Close()
	fe.Close()
	defer os.Remove(so)
	defer os.Remove(se)
	bo, _ := os.ReadFile(so)
	be, _ := os.ReadFile(se)
	res.Evals, res.Nontrivial = 1, 1
	if b, e := os.ReadFile(cf); e == nil {
		var n int
		fmt.Sscan(string(b), &n)
		if n > 0 {
			res.Evals = n
		}
	}
	if err != nil {
		res.Findings = append(res.Findings, fnd("c27-child-failed", "C27 scenario %s: child process failed (%v); stderr: %s", scn, err, trunc(string(be), 800)))
		return res
	}
	if len(bo) > 0 {
		res.Findings = append(res.Findings, fnd("c27-stdout", "C27 scenario %s: %d bytes written to standard output: %q", scn, len(bo), trunc(string(bo), 300)))
	}
	if len(be) > 0 {
		res.Findings = append(res.Findings, fnd("c27-stderr", "C27 scenario %s: %d bytes written to standard error: %q", scn, len(be), trunc(string(be), 300)))
	}
	res.Sample = map[string]any{"scenario": scn, "stdout_bytes": len(bo), "stderr_bytes": len(be)}
	res.Outcomes = []string{fmt.Sprintf("%s:%d/%d", scn, len(bo), len(be))}
	return res
}

func init() {
	modes["C27"] = ModeSpec{
		Cases: func(tier string) []Case {
			var cs []Case
			for _, s := range []string{"flush-faults", "merge-faults", "flush-fault-pairs", "merge-fault-pairs", "query-faults", "handle-close-faults", "unobserved-flush-faults", "corrupt-files", "missing-filters", "stop-deadline", "lifecycle"} {
				s := s
				cs = append(cs, Case{ID: s, Run: func() CaseResult { return c27Parent(s) }})
			}
			return cs
		},
		Rule: "eleven scenario groups (flush failures and Stop deadlines for batches ingested without a done channel, read handles whose Close fails during queries and merges, every single-fault flush run, every single-fault merge run, every ordered pair of failing store calls in a flush history and in a merge, a failure at every DataStore call position of 10 queries over two layouts, truncations/extensions/splices and CRC-consistent framing corruptions queried in both flows, external files with absent filters, Stop deadlines against stores wedged at each call kind, a plain lifecycle incl. rejected batches and an invalid regex) each run in a child process with Logger nil whose descriptors 1 and 2 are regular files; both files must stay empty",
	}
}

package main

import (
	"encoding/json"
	"runtime"
	"runtime/debug"
	"strings"
	"fmt"
	"reflect"

	bs "github.com/danthegoodman1/bloomsearch"
)

// C03 — returned rows reproduce the stored JSON (float64 round trip) and are independent.

func deepCopy(v any) any {
	switch t := v.(type) {
	case map[string]any:
		m := make(map[string]any, len(t))
		for k, x := range t {
			m[strings.Clone(k)] = deepCopy(x)
		}
		return m
	case string:
		// a Go string is only immutable if nobody writes to the memory behind it: clone the
		// bytes so that the copy really is independent of whatever the original aliases
		return strings.Clone(t)
	case []any:
		s := make([]any, len(t))
		for i, x := range t {
			s[i] = deepCopy(x)
		}
		return s
	}
	return v
}

// scribble overwrites everything reachable from a returned row.
func scribble(v any) {
	switch t := v.(type) {
	case map[string]any:
		for k, x := range t {
			scribble(x)
			t[k] = "SCRIBBLED"
		}
		t["__added"] = []any{"SCRIBBLED"}
	case []any:
		for i, x := range t {
			scribble(x)
			t[i] = "SCRIBBLED"
		}
	}
}

// matchExpected pairs every returned map with a distinct expected map that is DeepEqual.
func matchExpected(got []map[string]any, want []map[string]any) (unmatchedGot, unmatchedWant []string) {
	used := make([]bool, len(want))
	byCanon := map[string][]int{}
	for i, w := range want {
		c := canonMap(w)
		byCanon[c] = append(byCanon[c], i)
	}
	for _, g := range got {
		c := canonMap(g)
		found := false
		for _, i := range byCanon[c] {
			if !used[i] && reflect.DeepEqual(g, want[i]) {
				used[i] = true
				found = true
				break
			}
		}
		if !found {
			unmatchedGot = append(unmatchedGot, c)
		}
	}
	for i, u := range used {
		if !u {
			unmatchedWant = append(unmatchedWant, canonMap(want[i]))
		}
	}
	return
}

func c03Case(comp bs.CompressionType, chunk int, dupKeys bool, twice ...bool) CaseResult {
	var res CaseResult
	cfg := quietConfig()
	cfg.RowDataCompression = comp
	cfg.ZstdCompressionLevel = 3
	cfg.BloomFalsePositiveRate = 0.01
	w, err := newWorld(cfg, nil)
	if err != nil {
		res.Findings = append(res.Findings, fnd("setup", "%v", err))
		return res
	}
	defer w.Close()
	var rows []map[string]any
	alphabet := alphaRows()
	if len(twice) > 1 && twice[1] {
		// blocks of 33-64 MiB uncompressed (beyond the default row group size and in the largest
		// size class of the scan buffer pool): 36 rows of ~1 MiB of plain text each per block
		alphabet = nil
		for b := 0; b < 2; b++ {
			for i := 0; i < 36; i++ {
				line := strings.Repeat(fmt.Sprintf("blk%d row%02d lorem ipsum ", b, i), 1<<20/24)
				alphabet = append(alphabet, map[string]any{"id": fmt.Sprintf("%d-%02d", b, i), "body": line, "nested": map[string]any{"k": line[:1000]}})
			}
		}
	}
	for _, r := range alphabet {
		sr, err := mkStored(r, nil)
		if err != nil {
			continue
		}
		if sr.Info.DupKeys != dupKeys {
			continue
		}
		rows = append(rows, r)
		if len(twice) > 0 && twice[0] {
			// the same row again, adjacent in its block (a second, separately built value)
			b, _ := json.Marshal(r)
			var again map[string]any
			if json.Unmarshal(b, &again) == nil && again != nil {
				rows = append(rows, again)
			}
		}
	}
	if err := putChunks(w, rows, chunk); err != nil {
		res.Findings = append(res.Findings, fnd("setup-ingest", "%v", err))
		return res
	}
	var want, wantFirst []map[string]any
	for i := range w.Rows {
		var m map[string]any
		if err := json.Unmarshal(w.Rows[i].Raw, &m); err != nil || m == nil {
			continue // not decodable into an object: outside the property
		}
		want = append(want, m)
		var f map[string]any
		json.Unmarshal([]byte(w.Rows[i].Info.CanonFirst), &f)
		wantFirst = append(wantFirst, f)
	}
	if len(twice) > 1 && twice[1] {
		// sync.Pool is emptied by the garbage collector: keep it from running while the buffers
		// of the first scans wait in the pool, so that later scans really get them back
		old := debug.SetGCPercent(-1)
		defer func() { debug.SetGCPercent(old); runtime.GC() }()
	}
	check := func(phase string) []map[string]any {
		qr := w.Query(nil)
		res.Evals += len(qr.Maps)
		if qr.Err != nil || qr.QueryErr != nil {
			res.Findings = append(res.Findings, fnd("query-error", "C03 %s: match-all query failed: %v %v", phase, qr.QueryErr, qr.Err))
			return nil
		}
		ug, uw := matchExpected(qr.Maps, want)
		if len(ug)+len(uw) > 0 {
			sig := "c03-roundtrip-mismatch"
			if dupKeys {
				// exactly the catalogued deviation: the first of duplicate keys is kept
				if a, b := matchExpected(qr.Maps, wantFirst); len(a)+len(b) == 0 {
					sig = "c03-duplicate-keys-first-wins"
				}
			}
			res.Findings = append(res.Findings, fnd(sig, "C03 %s: returned rows differ from json.Unmarshal(json.Marshal(row)): returned-but-unexpected %s; expected-but-missing %s", phase, short(ug, 3), short(uw, 3)))
		}
		return qr.Maps
	}
	first := check("first query")
	res.Nontrivial = len(first)
	// independence: keep deep copies, scribble over a second result set, run queries that
	// reuse scan buffers, then compare again.
	copies := make([]any, len(first))
	for i, m := range first {
		copies[i] = deepCopy(m)
	}
	second := w.Query(nil)
	for _, m := range second.Maps {
		scribble(m)
	}
	later := []*bs.Query{bs.NewQuery().Field("a").Build(), bs.NewQuery().Token("x").Build(), bs.NewQuery().FieldRegex("a", ".").Build(), nil}
	if len(twice) > 1 && twice[1] {
		// scans of one block at a time, alternating: a buffer that held one block is handed out
		// again for the other
		for i := 0; i < 6; i++ {
			later = append(later, bs.NewQuery().Token(fmt.Sprintf("blk%d", i%2)).Build())
		}
	}
	for _, q := range later {
		qr := w.Query(q)
		res.Evals += len(qr.Maps)
		for _, m := range qr.Maps {
			if _, bad := m["__added"]; bad {
				res.Findings = append(res.Findings, fnd("c03-shared-state", "C03: a row returned by a later query carries a mutation made to an earlier result"))
				break
			}
		}
	}
	for i, m := range first {
		if !reflect.DeepEqual(m, copies[i]) {
			res.Findings = append(res.Findings, fnd("c03-retained-row-changed", "C03: a retained row changed after later queries / mutation of another result: now %s, was %s", trunc(canonMap(m), 300), trunc(canonMap(copies[i].(map[string]any)), 300)))
			break
		}
	}
	check("after mutation")
	// independence inside one result set: overwrite the rows one by one; every row not yet
	// overwritten must still be what it was
	third := w.Query(nil)
	tcopies := make([]any, len(third.Maps))
	for i, m := range third.Maps {
		tcopies[i] = deepCopy(m)
	}
	for i, m := range third.Maps {
		scribble(m)
		bad := false
		for j := i + 1; j < len(third.Maps); j++ {
			if !reflect.DeepEqual(third.Maps[j], tcopies[j]) {
				res.Findings = append(res.Findings, fnd("c03-rows-share-state", "C03: overwriting returned row %s changed another row of the same result: now %s, was %s", trunc(canonMap(tcopies[i].(map[string]any)), 200), trunc(canonMap(third.Maps[j]), 300), trunc(canonMap(tcopies[j].(map[string]any)), 300)))
				bad = true
				break
			}
		}
		res.Evals++
		if bad {
			break
		}
	}
	res.Sample = map[string]any{"compression": string(comp), "chunk": chunk, "rows": len(rows), "dup_key_rows": dupKeys}
	return res
}

// c03NilRow: a nil map marshals to `null`; the batch is acknowledged, so the rows around it
// must still come back.
func c03NilRow() CaseResult {
	var res CaseResult
	cfg := quietConfig()
	cfg.RowDataCompression = bs.CompressionNone
	w, err := newWorld(cfg, nil)
	if err != nil {
		res.Findings = append(res.Findings, fnd("setup", "%v", err))
		return res
	}
	defer w.Close()
	batch := []map[string]any{{"a": "x"}, nil, {"b": "y"}}
	done, err := w.IngestAsync(batch)
	if err != nil {
		res.Findings = append(res.Findings, fnd("setup-ingest", "%v", err))
		return res
	}
	w.Eng.Flush(ctxBG())
	ack := <-done
	res.Evals = 1
	res.Nontrivial = 1
	if ack != nil {
		res.Sample = "batch with a nil row rejected: " + ack.Error()
		return res // rejected as a whole: nothing stored, nothing to return
	}
	qr := w.Query(nil)
	got := countOf(qr.Rows)
	if qr.Err != nil || got[`{"a":"x"}`] != 1 || got[`{"b":"y"}`] != 1 {
		res.Findings = append(res.Findings, fnd("c03-nil-row-poisons-block", "C03/C01: batch [{a:x}, nil, {b:y}] was acknowledged with nil, but a match-all query returns %v with error %v (the rows sharing a block with the nil row are lost to every query)", qr.Rows, qr.Err))
	}
	res.Sample = fmt.Sprintf("rows=%v err=%v", qr.Rows, qr.Err)
	return res
}

func init() {
	modes["C03"] = ModeSpec{
		Cases: func(tier string) []Case {
			var cs []Case
			comps := []bs.CompressionType{bs.CompressionNone, bs.CompressionSnappy, bs.CompressionZstd}
			chunks := []int{1000, 9}
			if tier == "thorough" {
				chunks = []int{1000, 64, 9, 1}
			}
			for _, c := range comps {
				for _, ch := range chunks {
					c, ch := c, ch
					cs = append(cs, Case{ID: fmt.Sprintf("roundtrip/%s/%d", c, ch), Run: func() CaseResult { return c03Case(c, ch, false) }})
				}
			}
			for _, c := range comps {
				c := c
				cs = append(cs, Case{ID: fmt.Sprintf("roundtrip/%s/adjacent-duplicates", c), Run: func() CaseResult { return c03Case(c, 50, false, true) }})
			}
			cs = append(cs, Case{ID: "roundtrip/none/huge-blocks", Run: func() CaseResult { return c03Case(bs.CompressionNone, 36, false, false, true) }})
			cs = append(cs, Case{ID: "roundtrip/duplicate-keys", Run: func() CaseResult { return c03Case(bs.CompressionNone, 1000, true) }})
			cs = append(cs, Case{ID: "nil-row", Run: c03NilRow})
			return cs
		},
		Rule: "every row of the row alphabet that encoding/json decodes into an object, on every compression and two block splits; returned maps are paired one-to-one with json.Unmarshal(json.Marshal(row)) by reflect.DeepEqual; independence: retained rows are compared with deep copies after another result set was overwritten recursively and four further queries reused the scan buffers; the rows of one result set are overwritten one at a time and all not yet overwritten rows must stay unchanged; the alphabet is also stored with every row twice in a row (byte-identical neighbours); one case stores two uncompressed blocks of ~38 MiB (the largest pooled buffer class)",
	}
}

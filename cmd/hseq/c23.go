package main

import (
	"errors"
	"fmt"
	"sort"
	"sync"

	bs "github.com/danthegoodman1/bloomsearch"

	"verif/hstore"
)

// C23 under read faults: for a set of queries over multi-block, multi-chunk layouts the
// query is re-run with a failure at every DataStore call position it makes (k-th OpenFile /
// Seek / Read of each file, failing once or from then on). The clauses of C23 that are not
// limited to clean completion must hold for every such run.

type c23Fault struct {
	op, ptr    string
	k          int
	persistent bool
}

func (f c23Fault) String() string {
	m := "once"
	if f.persistent {
		m = "from-then-on"
	}
	return fmt.Sprintf("%s#%d(%s,%s)", f.op, f.k, f.ptr, m)
}

type c23Counter struct {
	mu     sync.Mutex
	counts map[string]int // op|ptr -> calls so far
	fault  *c23Fault
	hit    bool
}

func (c *c23Counter) enter(op, ptr string, n int) error {
	if op != "OpenFile" && op != "Read" && op != "Seek" {
		return nil
	}
	c.mu.Lock()
	defer c.mu.Unlock()
	key := op + "|" + ptr
	c.counts[key]++
	if f := c.fault; f != nil && f.op == op && f.ptr == ptr {
		if c.counts[key] == f.k || (f.persistent && c.counts[key] > f.k) {
			c.hit = true
			return errors.New("injected " + op + " failure")
		}
	}
	return nil
}

func c23FaultCase(tier string, lay layout, shard, shards int) CaseResult {
	var res CaseResult
	cfg := quietConfig()
	cfg = lay.cfg(cfg)
	cfg.MaxQueryConcurrency = 1 + shard%2*3 // 1: deterministic call order; 4: concurrent block scans
	mk := newWorld
	w, err := mk(cfg, nil)
	if err != nil {
		res.Findings = append(res.Findings, fnd("setup", "%v", err))
		return res
	}
	defer w.Close()
	rows := alphaRows()
	if tier == "quick" && len(rows) > 220 {
		rows = rows[:220]
	}
	if err := lay.build(w, rows); err != nil {
		res.Findings = append(res.Findings, fnd("layout-build", "%v", err))
		return res
	}
	si, err := indexWorld(w)
	if err != nil {
		res.Findings = append(res.Findings, fnd("layout-readback", "%v", err))
		return res
	}
	atoms := atomsFor(w.Rows, w.Tok)
	// a spread of conditions that return rows, plus match-all and a prefilter
	var qs []*bs.Query
	qs = append(qs, &bs.Query{})
	step := len(atoms)/40 + 1
	for i := 0; i < len(atoms) && len(qs) < 9; i += step {
		q := atoms[i].query()
		if r := w.Query(q); r.Err == nil && r.QueryErr == nil && len(r.Rows) > 0 {
			qs = append(qs, q)
		}
	}
	pe := bs.Partition(bs.PartitionNotEquals("zz"))
	tx := bs.Token("x")
	qs = append(qs, &bs.Query{Prefilter: &bs.QueryPrefilter{Expression: &pe}, Bloom: &bs.BloomQuery{Expression: &tx}})
	ctr := &c23Counter{}
	w.Data.Hook = &hstore.Hook{Enter: func(op, ptr string, n int) error { return ctr.enter(op, ptr, n) }}
	outcomes := map[string]bool{}
	qi := -1
	for _, q := range qs {
		qi++
		if qi%shards != shard%shards && shards > 1 {
			// every shard keeps match-all (qi==0)
			if qi != 0 {
				continue
			}
		}
		ctr.mu.Lock()
		ctr.counts, ctr.fault, ctr.hit = map[string]int{}, nil, false
		ctr.mu.Unlock()
		base := w.Query(q)
		if base.Err != nil || base.QueryErr != nil {
			res.Findings = append(res.Findings, fnd("query-error", "C23 faults: fault-free query failed: %v %v", base.QueryErr, base.Err))
			continue
		}
		var keys []string
		for k := range ctr.counts {
			keys = append(keys, k)
		}
		sort.Strings(keys)
		counts := map[string]int{}
		for k, v := range ctr.counts {
			counts[k] = v
		}
		for _, key := range keys {
			var op, ptr string
			for i := range key {
				if key[i] == '|' {
					op, ptr = key[:i], key[i+1:]
				}
			}
			for k := 1; k <= counts[key]; k++ {
				for _, persistent := range []bool{false, true} {
					f := c23Fault{op, ptr, k, persistent}
					ctr.mu.Lock()
					ctr.counts, ctr.fault, ctr.hit = map[string]int{}, &f, false
					ctr.mu.Unlock()
					qr := w.Query(q)
					res.Evals++
					res.Transitions++
					name := fmt.Sprintf("[faults/%s conc=%d %s fault=%s err=%v]", lay.name, cfg.MaxQueryConcurrency, describeQuery(q), f, qr.Err != nil)
					ctr.mu.Lock()
					hit := ctr.hit
					ctr.mu.Unlock()
					if hit {
						res.Nontrivial++
					}
					outcomes[fmt.Sprintf("hit=%v err=%v rows<base=%v", hit, qr.Err != nil, len(qr.Rows) < len(base.Rows))] = true
					checkStats(name, qr, si, q, &res.Findings)
					if len(res.Findings) > 12 {
						return res
					}
				}
			}
		}
	}
	ctr.mu.Lock()
	ctr.fault = nil
	ctr.mu.Unlock()
	for k := range outcomes {
		res.Outcomes = append(res.Outcomes, k)
	}
	sort.Strings(res.Outcomes)
	res.Sample = map[string]any{"layout": lay.name, "queries": len(qs), "files": len(w.Meta.Pointers()), "blocks": len(si.blocks), "concurrency": cfg.MaxQueryConcurrency}
	return res
}

func c23FaultCases(tier string) []Case {
	var cs []Case
	for _, lay := range layoutsFor(tier) {
		switch lay.name {
		case "external-writer", "chunks7-snappy-part", "chunks9-none-merged-twice", "external-writer-bigpad", "chunks20-part-merged-by-other":
		default:
			continue
		}
		lay := lay
		shards := 4
		for s := 0; s < shards; s++ {
			s := s
			cs = append(cs, Case{ID: fmt.Sprintf("faults/%s/%d", lay.name, s), Run: func() CaseResult { return c23FaultCase(tier, lay, s, shards) }})
		}
	}
	return cs
}

package main

import (
	"bytes"
	"context"
	"encoding/binary"
	"encoding/json"
	"fmt"
	"hash/crc32"
	"sort"

	"github.com/bits-and-blooms/bloom/v3"
	bs "github.com/danthegoodman1/bloomsearch"

	"verif/refmodel"
)

// A layout decides how a row corpus reaches disk: configuration, batch splits, flush
// points, merges, or an external writer.
type layout struct {
	name  string
	cfg   func(c bs.BloomSearchEngineConfig) bs.BloomSearchEngineConfig
	build func(w *World, rows []map[string]any) error
	// shipped: the layout lives in the library's MemoryMetaStore instead of the harness store
	shipped bool
}

// layoutLimit: layouts that hold only the first n rows of the alphabet (the unprunable layout
// they are compared with is then written from the same subset).
var layoutLimit = map[string]int{"rowgroup1-limit": 120}

func partByShape(r map[string]any) string {
	if r == nil {
		return ""
	}
	if _, ok := r["a"]; ok {
		return "pa"
	}
	if len(r) > 1 {
		return "pm"
	}
	return "pz"
}

func putChunks(w *World, rows []map[string]any, n int) error {
	for i := 0; i < len(rows); i += n {
		j := i + n
		if j > len(rows) {
			j = len(rows)
		}
		if err := w.Put(rows[i:j]); err != nil {
			return err
		}
	}
	return nil
}

func mergeAll(w *World, eng *bs.BloomSearchEngine, max int) error {
	for i := 0; i < max; i++ {
		before := len(w.Meta.Pointers())
		if _, err := eng.Merge(context.Background()); err != nil {
			return fmt.Errorf("merge: %w", err)
		}
		if len(w.Meta.Pointers()) == before {
			return nil
		}
	}
	return nil
}

func layoutsFor(tier string) []layout {
	ls := []layout{
		{"chunks7-snappy-part", func(c bs.BloomSearchEngineConfig) bs.BloomSearchEngineConfig {
			c.RowDataCompression = bs.CompressionSnappy
			c.BloomFalsePositiveRate = 0.01
			c.PartitionFunc = partByShape
			return c
		}, func(w *World, rows []map[string]any) error { return putChunks(w, rows, 7) }, true},
		{"chunks50-zstd-merged", func(c bs.BloomSearchEngineConfig) bs.BloomSearchEngineConfig {
			c.RowDataCompression = bs.CompressionZstd
			c.ZstdCompressionLevel = 1
			c.BloomFalsePositiveRate = 1e-6
			c.MaxRowGroupRows = 120
			c.MaxFilesToMergePerOperation = 4
			return c
		}, func(w *World, rows []map[string]any) error {
			if err := putChunks(w, rows, 50); err != nil {
				return err
			}
			return mergeAll(w, w.Eng, 6)
		}, false},
		{"chunks20-part-merged-by-other", func(c bs.BloomSearchEngineConfig) bs.BloomSearchEngineConfig {
			c.RowDataCompression = bs.CompressionSnappy
			c.BloomFalsePositiveRate = 0.01
			c.PartitionFunc = partByShape
			return c
		}, func(w *World, rows []map[string]any) error {
			if err := putChunks(w, rows, 20); err != nil {
				return err
			}
			oc := w.Cfg
			oc.RowDataCompression = bs.CompressionNone
			oc.BloomFalsePositiveRate = 0.2
			oc.MaxRowGroupRows = 64
			oc.MaxFilesToMergePerOperation = 3
			other, err := w.engineWith(oc)
			if err != nil {
				return err
			}
			return mergeAll(w, other, 8)
		}, true},
		{"chunks9-none-merged-twice", func(c bs.BloomSearchEngineConfig) bs.BloomSearchEngineConfig {
			// uncompressed sources (decoding returns the read buffer itself), blocks small
			// enough that merges combine several of them, and merge outputs merged again
			c.RowDataCompression = bs.CompressionNone
			c.BloomFalsePositiveRate = 0.001
			c.MaxRowGroupRows = 40
			c.MaxFilesToMergePerOperation = 3
			return c
		}, func(w *World, rows []map[string]any) error {
			if err := putChunks(w, rows, 9); err != nil {
				return err
			}
			if err := mergeAll(w, w.Eng, 4); err != nil {
				return err
			}
			oc := w.Cfg
			oc.MaxRowGroupRows = 1 << 20
			oc.MaxFilesToMergePerOperation = 8
			other, err := w.engineWith(oc)
			if err != nil {
				return err
			}
			return mergeAll(w, other, 3)
		}, false},
		{"external-writer", func(c bs.BloomSearchEngineConfig) bs.BloomSearchEngineConfig {
			c.BloomFalsePositiveRate = 0.01
			return c
		}, func(w *World, rows []map[string]any) error { return externalFiles(w, rows, false) }, false},
	}
	if tier == "thorough" {
		for _, comp := range []bs.CompressionType{bs.CompressionNone, bs.CompressionSnappy, bs.CompressionZstd} {
			for _, rate := range []float64{0.5, 0.01, 1e-6} {
				for _, chunk := range []int{1, 3, 64, 65} {
					comp, rate, chunk := comp, rate, chunk
					if chunk == 1 && rate != 0.01 {
						continue
					}
					ls = append(ls, layout{fmt.Sprintf("chunks%d-%s-%g", chunk, comp, rate), func(c bs.BloomSearchEngineConfig) bs.BloomSearchEngineConfig {
						c.RowDataCompression = comp
						c.ZstdCompressionLevel = 4 // the strongest level the encoder accepts (the engine passes the number straight to klauspost's EncoderLevel; 5..22 pass config validation but make every flush fail with "unknown encoder level")
						c.BloomFalsePositiveRate = rate
						if chunk%2 == 1 {
							c.PartitionFunc = partByShape
						}
						return c
					}, func(w *World, rows []map[string]any) error {
						if err := putChunks(w, rows, chunk); err != nil {
							return err
						}
						if chunk == 3 {
							return mergeAll(w, w.Eng, 3)
						}
						return nil
					}, chunk == 64})
				}
			}
		}
		ls = append(ls, layout{"rowgroup1-limit", func(c bs.BloomSearchEngineConfig) bs.BloomSearchEngineConfig {
			c.MaxRowGroupRows = 1 // every ingest flushes; merges cannot combine
			c.BloomFalsePositiveRate = 0.01
			return c
		}, func(w *World, rows []map[string]any) error {
			for i := 0; i < len(rows) && i < 120; i += 2 {
				j := i + 2
				if j > len(rows) {
					j = len(rows)
				}
				if err := w.Ingest(rows[i:j]); err != nil {
					return err
				}
				if err := w.Track(rows[i:j]); err != nil {
					return err
				}
			}
			return mergeAll(w, w.Eng, 2)
		}, false})
		ls = append(ls, layout{"external-writer-bigpad", func(c bs.BloomSearchEngineConfig) bs.BloomSearchEngineConfig {
			c.BloomFalsePositiveRate = 0.01
			return c
		}, func(w *World, rows []map[string]any) error { return externalFiles(w, rows, true) }, false})
	}
	return ls
}

// ---- external writer: files built from FILE_FORMAT.md with WriteFileFooter -------------

func sizedFilter(entries map[string]bool, rate float64) *bloom.BloomFilter {
	n := len(entries)
	if n < 1 {
		n = 1
	}
	f := bloom.NewWithEstimates(uint(n), rate)
	for e := range entries {
		f.AddString(e)
	}
	return f
}

func encodeSection(field, token, fieldToken *bloom.BloomFilter) []byte {
	var buf bytes.Buffer
	var flags byte
	var present []*bloom.BloomFilter
	if field != nil {
		flags |= 1
		present = append(present, field)
	}
	if token != nil {
		flags |= 2
		present = append(present, token)
	}
	if fieldToken != nil {
		flags |= 4
		present = append(present, fieldToken)
	}
	buf.WriteByte(flags)
	for _, f := range present {
		var fb bytes.Buffer
		f.WriteTo(&fb)
		var l [4]byte
		binary.LittleEndian.PutUint32(l[:], uint32(fb.Len()))
		buf.Write(l[:])
		buf.Write(fb.Bytes())
	}
	var c [4]byte
	binary.LittleEndian.PutUint32(c[:], crc32.Checksum(buf.Bytes(), crc32.MakeTable(crc32.Castagnoli)))
	buf.Write(c[:])
	return buf.Bytes()
}

// externalFiles writes the corpus as files produced outside the engine, cycling through
// the variants the format permits: absent block filters, absent file filters, partial
// sections, sections stored in another order than the blocks, metadata block order
// reversed, empty Compression string, no row hash, padding gaps inside the region
// (wider than the 4 MiB chunk cap when bigPad).
func externalFiles(w *World, rows []map[string]any, bigPad bool) error {
	const perBlock, blocksPerFile = 9, 4
	variant := 0
	for i := 0; i < len(rows); i += perBlock * blocksPerFile {
		j := i + perBlock*blocksPerFile
		if j > len(rows) {
			j = len(rows)
		}
		if err := externalFile(w, rows[i:j], perBlock, variant, bigPad); err != nil {
			return err
		}
		if err := w.Track(rows[i:j]); err != nil {
			return err
		}
		variant++
	}
	return nil
}

func externalFile(w *World, rows []map[string]any, perBlock, variant int, bigPad bool) error {
	v := variant % 10
	var file bytes.Buffer
	var blocks []bs.DataBlockMetadata
	var sections [][]byte
	fileF, fileT, fileFT := map[string]bool{}, map[string]bool{}, map[string]bool{}
	for i := 0; i < len(rows); i += perBlock {
		j := i + perBlock
		if j > len(rows) {
			j = len(rows)
		}
		var rd bytes.Buffer
		bf, bt, bft := map[string]bool{}, map[string]bool{}, map[string]bool{}
		for _, r := range rows[i:j] {
			raw, err := json.Marshal(r)
			if err != nil {
				return err
			}
			info, err := refmodel.Analyze(raw)
			if err != nil {
				return err
			}
			f, t, ft := info.Entries(w.Tok)
			for k := range f {
				bf[k], fileF[k] = true, true
			}
			for k := range t {
				bt[k], fileT[k] = true, true
			}
			for k := range ft {
				bft[k], fileFT[k] = true, true
			}
			var l [4]byte
			binary.LittleEndian.PutUint32(l[:], uint32(len(raw)))
			rd.Write(l[:])
			rd.Write(raw)
		}
		b := bs.DataBlockMetadata{
			RowDataOffset: file.Len(), RowDataSize: rd.Len(), Rows: j - i, UncompressedSize: rd.Len(),
			Compression: bs.CompressionNone, BloomFalsePositiveRate: 0.01,
			RowDataHash: crc32.Checksum(rd.Bytes(), crc32.MakeTable(crc32.Castagnoli)), HasRowDataHash: true,
		}
		if v == 5 {
			b.Compression = "" // pre-normalisation files
			b.HasRowDataHash, b.RowDataHash = false, 0
		}
		file.Write(rd.Bytes())
		var sec []byte
		switch v {
		case 0: // no block filters at all
		case 1: // only the field filter
			sec = encodeSection(sizedFilter(bf, 0.01), nil, nil)
		case 2: // only token + field:token
			sec = encodeSection(nil, sizedFilter(bt, 0.01), sizedFilter(bft, 0.01))
		default:
			sec = encodeSection(sizedFilter(bf, 0.01), sizedFilter(bt, 0.01), sizedFilter(bft, 0.01))
		}
		// mixed files: some blocks carry a section, one does not (first / middle / last block)
		nb := (len(rows) + perBlock - 1) / perBlock
		bi := i / perBlock
		if (v == 7 && bi == nb-1) || (v == 8 && bi == 0) || (v == 9 && bi == nb/2) {
			sec = nil
		}
		blocks = append(blocks, b)
		sections = append(sections, sec)
	}
	// the region: sections in block order, or reversed (v==3), or with padding (v==6)
	regionOffset := file.Len()
	order := make([]int, len(blocks))
	for i := range order {
		order[i] = i
	}
	if v == 3 {
		sort.Sort(sort.Reverse(sort.IntSlice(order)))
	}
	pad := 0
	if v == 6 {
		pad = 37
		if bigPad {
			pad = 4<<20 + 4099
		}
	}
	for n, bi := range order {
		if pad > 0 && n > 0 {
			file.Write(make([]byte, pad))
		}
		if len(sections[bi]) > 0 {
			blocks[bi].BloomFilterOffset = file.Len()
			blocks[bi].BloomFilterSize = len(sections[bi])
			file.Write(sections[bi])
		}
	}
	md := bs.FileMetadata{
		BloomFalsePositiveRate:  0.01,
		BlockFilterRegionOffset: regionOffset,
		BlockFilterRegionSize:   file.Len() - regionOffset,
		DataBlocks:              blocks,
	}
	if v != 0 && v != 2 {
		md.BloomFilters = bs.BloomFilters{FieldBloomFilter: sizedFilter(fileF, 0.01), TokenBloomFilter: sizedFilter(fileT, 0.01), FieldTokenBloomFilter: sizedFilter(fileFT, 0.01)}
	}
	if v == 4 { // metadata lists the blocks in reverse order
		rev := make([]bs.DataBlockMetadata, len(blocks))
		for i := range blocks {
			rev[len(blocks)-1-i] = blocks[i]
		}
		md.DataBlocks = rev
	}
	if err := bs.WriteFileFooter(&file, &md); err != nil {
		return err
	}
	ptr := w.Data.Put(append([]byte(nil), file.Bytes()...))
	// The MetaStore holds what a reader of the file would get.
	parsed, _, err := bs.ReadFileMetadata(bytes.NewReader(file.Bytes()))
	if err != nil {
		return fmt.Errorf("external file (variant %d) does not read back: %v", v, err)
	}
	return w.Meta.Update(context.Background(), []bs.WriteOperation{{FileMetadata: parsed, FilePointerBytes: []byte(ptr)}}, nil)
}

package main

import (
	"fmt"

	bs "github.com/danthegoodman1/bloomsearch"

	"verif/refmodel"
)

// C25, construction histories over shared values. Expressions are plain values that
// callers pass around: the same base expression is handed to several constructors and
// builder chains. "The tree means the nested combination the caller wrote" must keep
// holding for every object built earlier while later constructions run, so this case
// explores every history of <= depth construction steps over a pool that starts with one
// base expression; a step applies one constructor / builder form to one pool member and
// adds the result to the pool. After every step each object built so far must still
// serialise to the JSON it had when it was built (its meaning was checked against the
// reference on the real engine at that moment).

type shareObj struct {
	name string
	ref  *refTree
	obj  any // the built object (expression value or *bs.Query) whose JSON shape is watched
	snap string
}

type shareStep[E any] struct {
	name string
	// apply builds a new object from target and reports the expression it contains (so it
	// can be a later target), the object to watch, and the reference tree it must mean.
	apply func(target E, tref *refTree) (expr E, watch any, ref *refTree)
}

func refAnd(kids ...*refTree) *refTree { return &refTree{op: "and", children: kids} }
func refOr(kids ...*refTree) *refTree  { return &refTree{op: "or", children: kids} }
func refLeaf(i int) *refTree           { return &refTree{op: "leaf", leaf: i} }

// exploreSharing runs every history of 1..depth steps from each base.
func exploreSharing[E any](res *CaseResult, kind string, bases []*refTree, build func(*refTree) E,
	steps []shareStep[E], depth int, meaning func(watch any, ref *refTree) string) {
	for _, bt := range bases {
		var rec func(hist string, poolLen, d int)
		rec = func(hist string, poolLen, d int) {
			if d == depth || len(res.Findings) > 10 {
				return
			}
			for ti := 0; ti < poolLen; ti++ {
				for si := range steps {
					st := &steps[si]
					// objects are live values that cannot be copied with their aliasing intact:
					// every history replays its path on fresh values (constructors only)
					pool, watched := replayShare(bt, build, hist, steps)
					_, watch, ref := st.apply(pool[ti].expr, pool[ti].ref)
					res.Evals++
					res.Transitions++
					name := fmt.Sprintf("%s;%s@%d", hist, st.name, ti)
					if msg := meaning(watch, ref); msg != "" {
						res.Findings = append(res.Findings, fnd("c25-share-meaning", "C25 %s history base=%s steps=%s: the object just built does not mean the combination written (%s): %s", kind, bt, name, ref, msg))
						return
					}
					bad := false
					for _, o := range watched {
						if now := jsonShape(o.obj); now != o.snap {
							res.Findings = append(res.Findings, fnd("c25-share-interference", "C25 %s history base=%s steps=%s: building the last object changed an object built earlier (%s, written as %s): was %s, now %s", kind, bt, name, o.name, o.ref, o.snap, now))
							bad = true
							break
						}
					}
					if bad {
						return
					}
					if d > 0 {
						res.Nontrivial++ // a history in which an earlier object could be disturbed
					}
					rec(name, poolLen+1, d+1)
				}
			}
		}
		rec("", 1, 0)
		res.States++
	}
}

type shareMember[E any] struct {
	expr E
	ref  *refTree
}

// replayShare rebuilds the pool and the watched objects of a history ("" or
// ";step@target;step@target...") on fresh values.
func replayShare[E any](bt *refTree, build func(*refTree) E, hist string, steps []shareStep[E]) ([]shareMember[E], []shareObj) {
	base := build(bt)
	pool := []shareMember[E]{{base, bt}}
	watched := []shareObj{{name: "base", ref: bt, obj: base, snap: jsonShape(base)}}
	i := 0
	for i < len(hist) {
		// parse ";name@idx"
		j := i + 1
		for j < len(hist) && hist[j] != ';' {
			j++
		}
		tok := hist[i+1 : j]
		at := len(tok) - 1
		for tok[at] != '@' {
			at--
		}
		var ti int
		fmt.Sscanf(tok[at+1:], "%d", &ti)
		var st *shareStep[E]
		for k := range steps {
			if steps[k].name == tok[:at] {
				st = &steps[k]
			}
		}
		expr, watch, ref := st.apply(pool[ti].expr, pool[ti].ref)
		pool = append(pool, shareMember[E]{expr, ref})
		watched = append(watched, shareObj{name: tok, ref: ref, obj: watch, snap: jsonShape(watch)})
		i = j
	}
	return pool, watched
}

func c25ShareBloom(tier string, shard, shards int) CaseResult {
	var res CaseResult
	w, err := c25World()
	if err != nil {
		res.Findings = append(res.Findings, fnd("setup", "%v", err))
		return res
	}
	defer w.Close()
	var steps []shareStep[bs.BloomExpression]
	chain := func(b *bs.QueryBuilder, l int) {
		switch l {
		case 0:
			b.Field("a")
		case 1:
			b.Token("x")
		case 2:
			b.FieldToken("b", "y")
		default:
			b.Field("c")
		}
	}
	for l := range c25BloomLeaves {
		l := l
		leaf := func() bs.BloomExpression { return c25BloomLeaves[l] }
		steps = append(steps,
			shareStep[bs.BloomExpression]{fmt.Sprintf("And(t,L%d)", l), func(t bs.BloomExpression, r *refTree) (bs.BloomExpression, any, *refTree) {
				e := bs.And(t, leaf())
				return e, &e, refAnd(r, refLeaf(l))
			}},
			shareStep[bs.BloomExpression]{fmt.Sprintf("And(L%d,t)", l), func(t bs.BloomExpression, r *refTree) (bs.BloomExpression, any, *refTree) {
				e := bs.And(leaf(), t)
				return e, &e, refAnd(refLeaf(l), r)
			}},
			shareStep[bs.BloomExpression]{fmt.Sprintf("Or(t,L%d)", l), func(t bs.BloomExpression, r *refTree) (bs.BloomExpression, any, *refTree) {
				e := bs.Or(t, leaf())
				return e, &e, refOr(r, refLeaf(l))
			}},
			shareStep[bs.BloomExpression]{fmt.Sprintf("Match(t).L%d", l), func(t bs.BloomExpression, r *refTree) (bs.BloomExpression, any, *refTree) {
				b := bs.NewQuery().Match(t)
				chain(b, l)
				q := b.Build()
				return *q.Bloom.Expression, q, refAnd(r, refLeaf(l))
			}},
			shareStep[bs.BloomExpression]{fmt.Sprintf("Match(t).L%d.L%d", l, (l+1)%4), func(t bs.BloomExpression, r *refTree) (bs.BloomExpression, any, *refTree) {
				b := bs.NewQuery().Match(t)
				chain(b, l)
				chain(b, (l+1)%4)
				q := b.Build()
				return *q.Bloom.Expression, q, refAnd(r, refLeaf(l), refLeaf((l+1)%4))
			}},
			shareStep[bs.BloomExpression]{fmt.Sprintf("AndBloomQueries(t,L%d)", l), func(t bs.BloomExpression, r *refTree) (bs.BloomExpression, any, *refTree) {
				lf := leaf()
				q := bs.AndBloomQueries(&bs.BloomQuery{Expression: &t}, &bs.BloomQuery{Expression: &lf})
				return *q.Expression, q, refAnd(r, refLeaf(l))
			}},
		)
	}
	steps = append(steps, shareStep[bs.BloomExpression]{"And(t,t)", func(t bs.BloomExpression, r *refTree) (bs.BloomExpression, any, *refTree) {
		e := bs.And(t, t)
		return e, &e, refAnd(r, r)
	}}, shareStep[bs.BloomExpression]{"Or(t,t)", func(t bs.BloomExpression, r *refTree) (bs.BloomExpression, any, *refTree) {
		e := bs.Or(t, t)
		return e, &e, refOr(r, r)
	}})
	meaning := func(watch any, ref *refTree) string {
		var q *bs.Query
		switch x := watch.(type) {
		case *bs.Query:
			q = x
		case *bs.BloomQuery:
			q = &bs.Query{Bloom: x}
		case *bs.BloomExpression:
			q = &bs.Query{Bloom: &bs.BloomQuery{Expression: x}}
		}
		qr := w.Query(q)
		if qr.Err != nil || qr.QueryErr != nil {
			return fmt.Sprintf("query error %v %v", qr.QueryErr, qr.Err)
		}
		got := countOf(qr.Rows)
		for i := range w.Rows {
			r := &w.Rows[i]
			want := evalRef(ref, func(l int) bool { return refmodel.MatchBloom(r.Info, &c25BloomLeaves[l], w.Tok) })
			if want != (got[r.Info.Canon] > 0) {
				return fmt.Sprintf("row %s returned=%v, written combination=%v; tree now %s", r.Info.Canon, got[r.Info.Canon] > 0, want, jsonShape(watch))
			}
		}
		return ""
	}
	all := enumTrees(len(c25BloomLeaves), 2, 3, 5)
	var bases []*refTree
	n := 0
	for _, t := range all {
		if t.op == "leaf" {
			continue
		}
		// bases whose construction flattens (a same-type child) are the ones whose slices
		// carry spare capacity; keep all of those and a stride of the rest
		flat := false
		for _, c := range t.children {
			if c.op == t.op {
				flat = true
			}
		}
		n++
		if !flat && n%9 != 0 {
			continue
		}
		bases = append(bases, t)
	}
	limit := 60
	depth := 2
	if tier == "thorough" {
		limit, depth = 400, 3
	}
	var mine []*refTree
	for i, t := range bases {
		if i%shards == shard && len(mine) < limit {
			mine = append(mine, t)
		}
	}
	exploreSharing(&res, "bloom", mine, buildBloom, steps, depth, meaning)
	res.Sample = map[string]any{"bases": len(mine), "of": len(bases), "steps": len(steps), "depth": depth, "example_base": mine[len(mine)/2].String()}
	return res
}

func c25ShareRegex(tier string) CaseResult {
	var res CaseResult
	w, err := c25World()
	if err != nil {
		res.Findings = append(res.Findings, fnd("setup", "%v", err))
		return res
	}
	defer w.Close()
	var steps []shareStep[bs.RegexExpression]
	pats := [][2]string{{"c", "^z"}, {"a", "1"}, {"t", "x|q"}}
	for l := range c25RegexLeaves {
		l := l
		leaf := func() bs.RegexExpression { return c25RegexLeaves[l] }
		steps = append(steps,
			shareStep[bs.RegexExpression]{fmt.Sprintf("RegexAnd(t,L%d)", l), func(t bs.RegexExpression, r *refTree) (bs.RegexExpression, any, *refTree) {
				e := bs.RegexAnd(t, leaf())
				return e, &e, refAnd(r, refLeaf(l))
			}},
			shareStep[bs.RegexExpression]{fmt.Sprintf("RegexAnd(L%d,t)", l), func(t bs.RegexExpression, r *refTree) (bs.RegexExpression, any, *refTree) {
				e := bs.RegexAnd(leaf(), t)
				return e, &e, refAnd(refLeaf(l), r)
			}},
			shareStep[bs.RegexExpression]{fmt.Sprintf("RegexOr(t,L%d)", l), func(t bs.RegexExpression, r *refTree) (bs.RegexExpression, any, *refTree) {
				e := bs.RegexOr(t, leaf())
				return e, &e, refOr(r, refLeaf(l))
			}},
			shareStep[bs.RegexExpression]{fmt.Sprintf("MatchRegex(t).L%d", l), func(t bs.RegexExpression, r *refTree) (bs.RegexExpression, any, *refTree) {
				q := bs.NewQuery().MatchRegex(t).FieldRegex(pats[l][0], pats[l][1]).Build()
				return *q.Regex.Expression, q, refAnd(r, refLeaf(l))
			}},
		)
	}
	meaning := func(watch any, ref *refTree) string {
		var q *bs.Query
		switch x := watch.(type) {
		case *bs.Query:
			q = x
		case *bs.RegexExpression:
			q = &bs.Query{Regex: &bs.RegexQuery{Expression: x}}
		}
		qr := w.Query(q)
		if qr.Err != nil || qr.QueryErr != nil {
			return fmt.Sprintf("query error %v %v", qr.QueryErr, qr.Err)
		}
		got := countOf(qr.Rows)
		for i := range w.Rows {
			r := &w.Rows[i]
			want := evalRef(ref, func(l int) bool { return refmodel.MatchRegex(r.Info, &c25RegexLeaves[l]) })
			if want != (got[r.Info.Canon] > 0) {
				return fmt.Sprintf("row %s returned=%v, written combination=%v; tree now %s", r.Info.Canon, got[r.Info.Canon] > 0, want, jsonShape(watch))
			}
		}
		return ""
	}
	var bases []*refTree
	for i, t := range enumTrees(len(c25RegexLeaves), 2, 3, 3) {
		if t.op == "leaf" || len(t.children) == 0 {
			continue
		}
		flat := false
		for _, c := range t.children {
			if c.op == t.op {
				flat = true
			}
		}
		if flat || i%11 == 0 {
			bases = append(bases, t)
		}
	}
	limit, depth := 40, 2
	if tier == "thorough" {
		limit, depth = 200, 3
	}
	if len(bases) > limit {
		var b2 []*refTree
		for i := 0; i < len(bases); i += len(bases)/limit + 1 {
			b2 = append(b2, bases[i])
		}
		bases = b2
	}
	exploreSharing(&res, "regex", bases, buildRegex, steps, depth, meaning)
	res.Sample = map[string]any{"bases": len(bases), "steps": len(steps), "depth": depth}
	return res
}

func c25SharePrefilter(tier string) CaseResult {
	var res CaseResult
	type blk struct {
		md  bs.DataBlockMetadata
		row map[string]any
	}
	var blocks []blk
	for _, p := range []string{"pa", "pb", ""} {
		for _, n := range []any{nil, int64(-1), int64(5)} {
			for _, m := range []any{nil, int64(2), int64(9)} {
				md := bs.DataBlockMetadata{PartitionID: p, MinMaxIndexes: map[string]bs.MinMaxIndex{}}
				row := map[string]any{}
				if n != nil {
					md.MinMaxIndexes["n"] = bs.MinMaxIndex{Min: n.(int64), Max: n.(int64)}
					row["n"] = n
				}
				if m != nil {
					md.MinMaxIndexes["m"] = bs.MinMaxIndex{Min: m.(int64), Max: m.(int64)}
					row["m"] = m
				}
				blocks = append(blocks, blk{md, row})
			}
		}
	}
	indexed := map[string]bool{"n": true, "m": true}
	var steps []shareStep[bs.PrefilterExpression]
	for l := range c25PreLeaves {
		l := l
		leaf := func() bs.PrefilterExpression { return c25PreLeaves[l] }
		steps = append(steps,
			shareStep[bs.PrefilterExpression]{fmt.Sprintf("PrefilterAnd(t,L%d)", l), func(t bs.PrefilterExpression, r *refTree) (bs.PrefilterExpression, any, *refTree) {
				e := bs.PrefilterAnd(t, leaf())
				return e, &e, refAnd(r, refLeaf(l))
			}},
			shareStep[bs.PrefilterExpression]{fmt.Sprintf("PrefilterOr(L%d,t)", l), func(t bs.PrefilterExpression, r *refTree) (bs.PrefilterExpression, any, *refTree) {
				e := bs.PrefilterOr(leaf(), t)
				return e, &e, refOr(refLeaf(l), r)
			}},
			shareStep[bs.PrefilterExpression]{fmt.Sprintf("MatchPrefilter(And(t,L%d))", l), func(t bs.PrefilterExpression, r *refTree) (bs.PrefilterExpression, any, *refTree) {
				q := bs.NewQuery().MatchPrefilter(bs.PrefilterAnd(t, leaf())).Build()
				return *q.Prefilter.Expression, q, refAnd(r, refLeaf(l))
			}},
		)
	}
	meaning := func(watch any, ref *refTree) string {
		var qp *bs.QueryPrefilter
		switch x := watch.(type) {
		case *bs.Query:
			qp = x.Prefilter
		case *bs.PrefilterExpression:
			qp = &bs.QueryPrefilter{Expression: x}
		}
		for bi := range blocks {
			want := evalRef(ref, func(l int) bool {
				return refmodel.RowSatisfiesPrefilter(blocks[bi].row, blocks[bi].md.PartitionID, indexed, &c25PreLeaves[l])
			})
			if got := bs.EvaluateDataBlockMetadata(&blocks[bi].md, qp); got != want {
				return fmt.Sprintf("block %v/%v evaluates to %v, written combination=%v", blocks[bi].md.PartitionID, blocks[bi].md.MinMaxIndexes, got, want)
			}
		}
		return ""
	}
	var bases []*refTree
	for i, t := range enumTrees(len(c25PreLeaves), 2, 3, 3) {
		if t.op == "leaf" || len(t.children) == 0 {
			continue
		}
		flat := false
		for _, c := range t.children {
			if c.op == t.op {
				flat = true
			}
		}
		if flat || i%11 == 0 {
			bases = append(bases, t)
		}
	}
	limit, depth := 60, 2
	if tier == "thorough" {
		limit, depth = 300, 3
	}
	if len(bases) > limit {
		var b2 []*refTree
		for i := 0; i < len(bases); i += len(bases)/limit + 1 {
			b2 = append(b2, bases[i])
		}
		bases = b2
	}
	exploreSharing(&res, "prefilter", bases, buildPre, steps, depth, meaning)
	res.Sample = map[string]any{"bases": len(bases), "steps": len(steps), "depth": depth}
	return res
}

package main

import (
	"encoding/json"
	"context"
	"fmt"
	"math"
	"time"

	bs "github.com/danthegoodman1/bloomsearch"

	"verif/refmodel"
)

// C04 — prefilters never prune a block holding a row that satisfies them.

type namedI32 int32
type namedU64 uint64
type namedF64 float64
type namedI8 int8

type c04val struct {
	name string
	v    any
	json bool // JSON-marshalable (no ±Inf)
}

func c04Values() []c04val {
	var vs []c04val
	add := func(name string, v any) { vs = append(vs, c04val{name, v, true}) }
	ints := []int64{math.MinInt64, math.MinInt64 + 1, -2, -1, 0, 1, 2, math.MaxInt64 - 1, math.MaxInt64}
	for _, i := range ints {
		add(fmt.Sprintf("int64(%d)", i), i)
		if i >= math.MinInt32 && i <= math.MaxInt32 {
			add(fmt.Sprintf("int(%d)", i), int(i))
			add(fmt.Sprintf("int32(%d)", i), int32(i))
			add(fmt.Sprintf("int16(%d)", i), int16(i))
			add(fmt.Sprintf("int8(%d)", i), int8(i))
			add(fmt.Sprintf("namedI32(%d)", i), namedI32(i))
			add(fmt.Sprintf("namedI8(%d)", i), namedI8(i))
			add(fmt.Sprintf("Duration(%d)", i), time.Duration(i))
		}
		if i >= 0 {
			add(fmt.Sprintf("uint64(%d)", i), uint64(i))
			add(fmt.Sprintf("uint(%d)", i), uint(i))
			add(fmt.Sprintf("namedU64(%d)", i), namedU64(i))
			if i <= 255 {
				add(fmt.Sprintf("uint8(%d)", i), uint8(i))
				add(fmt.Sprintf("uint16(%d)", i), uint16(i))
				add(fmt.Sprintf("uint32(%d)", i), uint32(i))
			}
		}
	}
	add("int(MaxInt64)", int(math.MaxInt64))
	add("int(MinInt64)", int(math.MinInt64))
	add("uint64(2^63)", uint64(1)<<63)
	add("uint64(Max)", uint64(math.MaxUint64))
	add("uint(Max)", uint(math.MaxUint64))
	add("namedU64(Max)", namedU64(math.MaxUint64))
	add("uint32(Max)", uint32(math.MaxUint32))
	add("int16(Min)", int16(math.MinInt16))
	fl := []float64{0.5, -0.5, 1.5, -1.5, 1 << 53, 1<<53 + 2, -(1 << 53), 1 << 63, -(1 << 63), 1<<63 + 2048, 9223372036854774784, 1e19, -1e19, math.MaxFloat64, -math.MaxFloat64, math.SmallestNonzeroFloat64, 0, 1, -1, 2}
	for _, f := range fl {
		add(fmt.Sprintf("float64(%g)", f), f)
		add(fmt.Sprintf("namedF64(%g)", f), namedF64(f))
	}
	add("float64(-0)", math.Copysign(0, -1))
	for _, f := range []float32{0.5, -1.5, 1 << 24, math.MaxFloat32, -math.MaxFloat32, 16777217} {
		add(fmt.Sprintf("float32(%g)", f), f)
	}
	vs = append(vs, c04val{"+Inf", math.Inf(1), false}, c04val{"-Inf", math.Inf(-1), false},
		c04val{"float32(+Inf)", float32(math.Inf(1)), false}, c04val{"namedF64(-Inf)", namedF64(math.Inf(-1)), false})
	return vs
}

func c04Conds() []bs.NumericCondition {
	ops := []int64{math.MinInt64, math.MinInt64 + 1, -2, -1, 0, 1, 2, math.MaxInt64 - 1, math.MaxInt64}
	var cs []bs.NumericCondition
	for _, v := range ops {
		cs = append(cs, bs.NumericEquals(v), bs.NumericNotEquals(v), bs.NumericGreaterThan(v), bs.NumericGreaterThanEqual(v), bs.NumericLessThan(v), bs.NumericLessThanEqual(v))
	}
	cs = append(cs, bs.NumericIn(), bs.NumericNotIn())
	for _, a := range ops {
		cs = append(cs, bs.NumericIn(a), bs.NumericNotIn(a))
		for _, b := range ops {
			cs = append(cs, bs.NumericIn(a, b), bs.NumericNotIn(a, b), bs.NumericBetween(a, b), bs.NumericNotBetween(a, b))
		}
	}
	// conditions are exported structs: built as literals and decoded from JSON their lists come
	// in any order and with repeats (the helper functions are not the only way in)
	lit := func(op bs.NumericCondition, vals ...int64) {
		c := op
		c.Values = append([]int64(nil), vals...)
		cs = append(cs, c)
		if b, err := json.Marshal(c); err == nil {
			var d bs.NumericCondition
			if json.Unmarshal(b, &d) == nil {
				cs = append(cs, d)
			}
		}
	}
	small := []int64{math.MinInt64, -2, 0, 1, math.MaxInt64}
	for _, a := range small {
		for _, b := range small {
			for _, c := range small {
				if a == b && b == c {
					continue
				}
				lit(bs.NumericIn(0), a, b, c)
				lit(bs.NumericNotIn(0), a, b, c)
			}
		}
	}
	return cs
}

func condName(c bs.NumericCondition) string {
	return fmt.Sprintf("%s v=%d vs=%v [%d,%d]", c.Operator, c.Value, c.Values, c.Min, c.Max)
}

// c04Function: every population of one or two values x every condition, at function level.
func c04Function(shard, shards int) CaseResult {
	var res CaseResult
	vals := c04Values()
	conds := c04Conds()
	// reference truth matrix and conversion results
	exact := make([]refmodel.Num, len(vals))
	conv := make([][3]int64, len(vals)) // min, max, ok
	sat := make([][]bool, len(vals))
	for i, v := range vals {
		x, ok := refmodel.ExactNum(v.v)
		if !ok {
			res.Findings = append(res.Findings, fnd("harness", "reference rejects %s", v.name))
			return res
		}
		exact[i] = x
		mn, mx, ok := bs.ConvertToMinMaxInt64(v.v)
		o := int64(0)
		if ok {
			o = 1
		}
		conv[i] = [3]int64{mn, mx, o}
		sat[i] = make([]bool, len(conds))
		for j, c := range conds {
			sat[i][j] = refmodel.NumSatisfies(x, c)
		}
		if shard == 0 {
			res.Evals++
			if !ok {
				res.Findings = append(res.Findings, fnd("c04-not-indexed:"+kindOf(v.v), "C04 ConvertToMinMaxInt64(%s) reports not numeric: values of this type are never indexed, so a block holding one is pruned by every minmax condition it satisfies", v.name))
				continue
			}
			// the recorded range must cover the value (saturating at the int64 extremes)
			if x.Cmp(mn) < 0 && mn != math.MinInt64 || x.Cmp(mx) > 0 && mx != math.MaxInt64 || mn > mx {
				res.Findings = append(res.Findings, fnd("c04-range-does-not-cover", "C04 ConvertToMinMaxInt64(%s) = [%d,%d] does not cover the value", v.name, mn, mx))
			}
		}
	}
	check := func(pop []int) {
		var idx bs.MinMaxIndex
		have := false
		for _, i := range pop {
			if conv[i][2] == 0 {
				continue
			}
			if !have {
				idx = bs.MinMaxIndex{Min: conv[i][0], Max: conv[i][1]}
				have = true
			} else {
				idx = bs.UpdateMinMaxIndex(idx, conv[i][0], conv[i][1])
			}
		}
		if !have {
			return
		}
		md := bs.DataBlockMetadata{MinMaxIndexes: map[string]bs.MinMaxIndex{"n": idx}, PartitionID: "p"}
		for j, c := range conds {
			res.Evals++
			want := false
			for _, i := range pop {
				if conv[i][2] == 1 && sat[i][j] {
					want = true
				}
			}
			if !want {
				continue
			}
			res.Nontrivial++
			if !bs.EvaluateMinMaxCondition(idx, c) {
				res.Findings = append(res.Findings, fnd("c04-eval-prunes:"+string(c.Operator), "C04 EvaluateMinMaxCondition([%d,%d], %s) = false although a block value (%s) satisfies it", idx.Min, idx.Max, condName(c), popName(vals, pop)))
				continue
			}
			q := &bs.QueryPrefilter{}
			e := bs.MinMax("n", c)
			q.Expression = &e
			if !bs.EvaluateDataBlockMetadata(&md, q) || len(bs.FilterDataBlocks([]bs.DataBlockMetadata{md}, q)) != 1 {
				res.Findings = append(res.Findings, fnd("c04-metadata-prunes", "C04 EvaluateDataBlockMetadata/FilterDataBlocks prune [%d,%d] for %s although %s satisfies it", idx.Min, idx.Max, condName(c), popName(vals, pop)))
			}
		}
	}
	n := 0
	for i := range vals {
		if n%shards == shard {
			check([]int{i})
		}
		n++
		for k := i + 1; k < len(vals); k++ {
			if n%shards == shard {
				check([]int{i, k})
			}
			n++
		}
		if len(res.Findings) > 40 {
			break
		}
	}
	res.Sample = map[string]any{"values": len(vals), "conditions": len(conds), "example_value": vals[len(vals)/3].name, "example_condition": condName(conds[len(conds)/2])}
	return res
}

func kindOf(v any) string { return fmt.Sprintf("%T", v) }

func popName(vals []c04val, pop []int) string {
	s := ""
	for _, i := range pop {
		s += vals[i].name + " "
	}
	return s
}

// c04Trees: AND/OR trees of depth <= 2 over minmax and partition conditions at metadata
// level: if some row of the block satisfies the tree with its own values, the block stays.
func c04Trees() CaseResult {
	var res CaseResult
	type rowv struct {
		n, m any
		p    string
	}
	rows := []rowv{{int64(1), int64(5), "a"}, {1.5, nil, "a"}, {uint64(math.MaxUint64), int64(-3), "b"}, {int64(math.MinInt64), nil, "ab"}, {-0.5, int64(0), "é"}, {nil, int64(7), "a"}}
	leaves := []bs.PrefilterExpression{
		bs.MinMax("n", bs.NumericGreaterThan(1)), bs.MinMax("n", bs.NumericEquals(1)), bs.MinMax("n", bs.NumericLessThan(0)), bs.MinMax("n", bs.NumericNotBetween(-1, 2)),
		bs.MinMax("m", bs.NumericGreaterThanEqual(5)), bs.MinMax("m", bs.NumericIn(-3, 0)), bs.MinMax("zz", bs.NumericEquals(0)),
	}
	for _, op := range []func(string) bs.StringCondition{bs.PartitionEquals, bs.PartitionNotEquals, bs.PartitionGreaterThan, bs.PartitionGreaterThanEqual, bs.PartitionLessThan, bs.PartitionLessThanEqual} {
		for _, id := range []string{"", "a", "b", "ab", "é"} {
			leaves = append(leaves, bs.Partition(op(id)))
		}
	}
	leaves = append(leaves, bs.Partition(bs.PartitionIn("a", "é")), bs.Partition(bs.PartitionNotIn("a")), bs.Partition(bs.PartitionBetween("a", "b")), bs.Partition(bs.PartitionNotBetween("a", "ab")),
		bs.PrefilterExpression{ExpressionType: bs.PrefilterExpressionCondition}, bs.PrefilterExpression{ExpressionType: bs.PrefilterExpressionOr}, bs.PrefilterExpression{ExpressionType: bs.PrefilterExpressionAnd})
	var trees []bs.PrefilterExpression
	trees = append(trees, leaves...)
	for i := range leaves {
		for j := range leaves {
			trees = append(trees, bs.PrefilterAnd(leaves[i], leaves[j]), bs.PrefilterOr(leaves[i], leaves[j]))
		}
	}
	for i := 0; i < len(leaves); i += 2 {
		for j := 1; j < len(leaves); j += 3 {
			for k := 0; k < len(leaves); k += 5 {
				trees = append(trees, bs.PrefilterAnd(bs.PrefilterOr(leaves[i], leaves[j]), leaves[k]), bs.PrefilterOr(bs.PrefilterAnd(leaves[i], leaves[j]), leaves[k]),
					bs.PrefilterExpression{ExpressionType: bs.PrefilterExpressionOr, Children: []bs.PrefilterExpression{{ExpressionType: bs.PrefilterExpressionAnd, Children: []bs.PrefilterExpression{leaves[i], leaves[k]}}, leaves[j]}})
			}
		}
	}
	indexed := map[string]bool{"n": true, "m": true}
	// blocks: every non-empty subset of up to 2 rows sharing a partition
	for a := range rows {
		for b := a; b < len(rows); b++ {
			if rows[a].p != rows[b].p {
				continue
			}
			md := bs.DataBlockMetadata{PartitionID: rows[a].p, MinMaxIndexes: map[string]bs.MinMaxIndex{}}
			var members []map[string]any
			for _, r := range []rowv{rows[a], rows[b]} {
				row := map[string]any{}
				for key, v := range map[string]any{"n": r.n, "m": r.m} {
					if v == nil {
						continue
					}
					row[key] = v
					mn, mx, ok := bs.ConvertToMinMaxInt64(v)
					if !ok {
						continue
					}
					if cur, ok := md.MinMaxIndexes[key]; ok {
						md.MinMaxIndexes[key] = bs.UpdateMinMaxIndex(cur, mn, mx)
					} else {
						md.MinMaxIndexes[key] = bs.MinMaxIndex{Min: mn, Max: mx}
					}
				}
				members = append(members, row)
			}
			for ti := range trees {
				res.Evals++
				want := false
				for _, row := range members {
					if refmodel.RowSatisfiesPrefilter(row, md.PartitionID, indexed, &trees[ti]) {
						want = true
					}
				}
				if !want {
					continue
				}
				res.Nontrivial++
				if !bs.EvaluateDataBlockMetadata(&md, &bs.QueryPrefilter{Expression: &trees[ti]}) {
					res.Findings = append(res.Findings, fnd("c04-tree-prunes", "C04 tree %s prunes block {partition %q, minmax %v} although one of its rows %v satisfies it", describeQuery(&bs.Query{Prefilter: &bs.QueryPrefilter{Expression: &trees[ti]}}), md.PartitionID, md.MinMaxIndexes, members))
					if len(res.Findings) > 20 {
						return res
					}
				}
			}
		}
	}
	res.Sample = map[string]any{"trees": len(trees), "leaves": len(leaves)}
	return res
}

// c04Engine: end to end — rows {"n": v} flushed (and merged) by the real engine, every
// condition through Query(MatchPrefilter): a row that satisfies the condition is returned.
func c04Engine(shard, shards int, merge bool) CaseResult {
	var res CaseResult
	var vals []c04val
	for i, v := range c04Values() {
		if v.json && (i%3 == 0 || i < 12 || kindOf(v.v) == "time.Duration" || kindOf(v.v) == "main.namedU64" || kindOf(v.v) == "main.namedF64") {
			vals = append(vals, v)
		}
	}
	conds := c04Conds()
	n := 0
	for i := range vals {
		for k := i; k < len(vals); k++ {
			n++
			if n%shards != shard {
				continue
			}
			cfg := quietConfig()
			cfg.RowDataCompression = bs.CompressionNone
			cfg.BloomFalsePositiveRate = 0.01
			cfg.MinMaxIndexes = []string{"n"}
			w, err := newWorld(cfg, nil)
			if err != nil {
				res.Findings = append(res.Findings, fnd("setup", "%v", err))
				return res
			}
			pop := []c04val{vals[i]}
			if k != i {
				pop = append(pop, vals[k])
			}
			var rows []map[string]any
			for id, p := range pop {
				rows = append(rows, map[string]any{"id": id, "n": p.v})
			}
			if merge && len(rows) == 2 {
				err = w.Put(rows[:1])
				if err == nil {
					err = w.Put(rows[1:])
				}
				if err == nil {
					_, err = w.Eng.Merge(context.Background())
				}
			} else {
				err = w.Put(rows)
			}
			if err != nil {
				res.Findings = append(res.Findings, fnd("setup-ingest", "C04 engine population %s %s: %v", pop[0].name, pop[len(pop)-1].name, err))
				w.Close()
				continue
			}
			for ci, c := range conds {
				if ci%4 != (i+k)%4 && len(conds) > 100 { // quarter of the conditions per population, rotating
					continue
				}
				e := bs.MinMax("n", c)
				q := bs.NewQuery().MatchPrefilter(e).Build()
				res.Evals++
				var must []string
				for ri := range w.Rows {
					x, ok := refmodel.ExactNum(w.Rows[ri].Row["n"])
					if ok && refmodel.NumSatisfies(x, c) {
						must = append(must, w.Rows[ri].Info.Canon)
					}
				}
				if len(must) == 0 {
					continue
				}
				res.Nontrivial++
				qr := w.Query(q)
				got := countOf(qr.Rows)
				for _, m := range must {
					if got[m] == 0 {
						res.Findings = append(res.Findings, fnd("c04-engine-prunes:"+kindOf(pop[0].v)+"/"+kindOf(pop[len(pop)-1].v), "C04 engine(merge=%v): row %s (n=%s) satisfies %s but Query with that prefilter does not return it (blocks: %s)", merge, m, pop[0].name+"/"+pop[len(pop)-1].name, condName(c), blockRanges(w)))
						break
					}
				}
				if len(res.Findings) > 25 {
					w.Close()
					return res
				}
			}
			w.Close()
		}
	}
	res.Sample = map[string]any{"values": len(vals), "conditions": len(conds), "merge": merge}
	return res
}

func blockRanges(w *World) string {
	s := ""
	for _, p := range w.Meta.Pointers() {
		md, _ := w.Meta.Metadata(p)
		for _, b := range md.DataBlocks {
			s += fmt.Sprintf("%s:%v ", p, b.MinMaxIndexes)
		}
	}
	return s
}

func init() {
	modes["C04"] = ModeSpec{
		Cases: func(tier string) []Case {
			var cs []Case
			fs, es := 16, 16
			for s := 0; s < fs; s++ {
				s := s
				cs = append(cs, Case{ID: fmt.Sprintf("function/%d", s), Run: func() CaseResult { return c04Function(s, fs) }})
			}
			cs = append(cs, Case{ID: "trees", Run: c04Trees})
			// ranges folded by real merges: every ordered pair (thorough: triples) of interval shapes
			cs = append(cs, Case{ID: "merge-shapes/pairs", Run: func() CaseResult { return mergeShapeCase(sweepOpts{c01: true}, false) }})
			if tier == "thorough" {
				cs = append(cs, Case{ID: "merge-shapes/triples", Run: func() CaseResult { return mergeShapeCase(sweepOpts{c01: true}, true) }})
			}
			if tier == "thorough" {
				es = 48
			}
			for s := 0; s < es; s++ {
				s := s
				if tier == "quick" && s%4 != 0 {
					continue
				}
				cs = append(cs, Case{ID: fmt.Sprintf("engine/%d", s), Run: func() CaseResult { return c04Engine(s, es, false) }})
				cs = append(cs, Case{ID: fmt.Sprintf("engine-merge/%d", s), Run: func() CaseResult { return c04Engine(s, es, true) }})
			}
			return cs
		},
		Rule: "every block population of one or two values from the boundary alphabet (every Go integer/float kind incl. named types, int64 extremes, beyond-int64 magnitudes, ±Inf at function level) x every condition (10 operators x boundary operands, IN/NOT_IN lists of size 0-2 from the helpers and of size 3 in every order as struct literals and as JSON-decoded conditions, all ordered and inverted BETWEEN pairs) x {function level, metadata level, real flush, real merge}; plus every ordered pair (thorough: triples) of minmax interval shapes x file sizes merged by the engine and queried with every threshold condition; non-trivial = some value of the population satisfies the condition by exact math/big arithmetic",
	}
}

package main

import (
	"context"
	"crypto/sha256"
	"fmt"
	"sort"
	"strings"

	bs "github.com/danthegoodman1/bloomsearch"

	"verif/refmodel"
)

// C11 / C12 — history BFS over {Put(batch), Merge(engine)} with canonical-state dedup;
// invariants on every state, transition oracles on every Merge edge.

type mergeOpts struct {
	c11, c12 bool
	// aliasTok: the engines use a custom tokenizer whose tokens are substrings of its input
	aliasTok bool
}

func c11Part(r map[string]any) string { s, _ := r["p"].(string); return s }

func c11IngestCfg(alias ...bool) bs.BloomSearchEngineConfig {
	c := quietConfig()
	if len(alias) > 0 && alias[0] {
		c.Tokenizer = strings.Fields
	}
	c.RowDataCompression = bs.CompressionSnappy
	c.BloomFalsePositiveRate = 0.01
	c.PartitionFunc = c11Part
	c.MinMaxIndexes = []string{"n"}
	return c
}

// merge engines: differing compression, rate and limits over the same stores
func c11MergeCfg(e int, alias ...bool) bs.BloomSearchEngineConfig {
	c := c11IngestCfg(alias...)
	switch e {
	case 0:
		c.MaxRowGroupRows = 3
		c.MaxFilesToMergePerOperation = 2
	case 1:
		c.RowDataCompression = bs.CompressionZstd
		c.ZstdCompressionLevel = 1
		c.BloomFalsePositiveRate = 1e-6
		c.MaxRowGroupBytes = 130
		c.MaxFilesToMergePerOperation = 3
	case 2:
		c.RowDataCompression = bs.CompressionNone
		c.BloomFalsePositiveRate = 0.5
		c.MaxRowGroupRows = 2
		c.MaxFileSize = 900
		c.MaxFilesToMergePerOperation = 3
	case 4:
		// an engine restarted with a different index list: blocks that carry the key n and
		// blocks that carry none must still not be combined
		c.MinMaxIndexes = []string{"other"}
		c.MaxFilesToMergePerOperation = 4
	case 3:
		// byte limit between two and three of batch 5's highly compressible one-row blocks
		// (uncompressed ~250 bytes each, a few dozen compressed)
		c.MaxRowGroupBytes = 600
		c.MaxFilesToMergePerOperation = 4
	}
	return c
}

// batches; "s" (the history position of the Put) makes rows of different Puts distinct
func c11Batch(b, seq int) []map[string]any {
	s := seq
	switch b {
	case 0:
		return []map[string]any{{"s": s, "p": "p", "n": 1, "t": "x"}}
	case 1:
		return []map[string]any{{"s": s, "p": "p", "t": "y"}, {"s": s, "p": "q", "n": 5, "t": "x y"}}
	case 2:
		return []map[string]any{{"s": s, "p": "p", "n": -3.5, "t": "z"}, {"s": s, "p": "p", "n": 9, "t": "x"}}
	case 3:
		return []map[string]any{{"s": s, "t": "x"}}
	case 5:
		return []map[string]any{{"s": s, "p": "p", "n": 2, "t": "x", "pad": strings.Repeat("ab ", 64)}}
	case 6:
		// three rows of one partition: with a row limit of 3 this block fits behind no seed, while
		// smaller blocks visited after it do (a skipped block in the middle of a bucket)
		return []map[string]any{{"s": s, "p": "p", "n": 4, "t": "x"}, {"s": s, "p": "p", "n": 6, "t": "y"}, {"s": s, "p": "p", "n": 7, "t": "z"}}
	default:
		return []map[string]any{{"s": s, "p": "q", "n": 5, "t": "dup"}, {"s": s, "p": "q", "n": 5, "t": "dup"}, {"s": s, "p": "p", "n": uint64(1) << 63, "t": "big"}}
	}
}

const c11Batches, c11Engines = 7, 5

type c11op struct {
	merge bool
	k     int // batch index or engine index
}

func (o c11op) String() string {
	if o.merge {
		return fmt.Sprintf("M%d", o.k)
	}
	return fmt.Sprintf("P%d", o.k)
}

func opsString(ops []c11op) string {
	var s []string
	for _, o := range ops {
		s = append(s, o.String())
	}
	return strings.Join(s, " ")
}

var c11Queries = func() []*bs.Query {
	qs := []*bs.Query{
		nil,
		bs.NewQuery().Field("n").Build(),
		bs.NewQuery().Token("x").Build(),
		bs.NewQuery().FieldToken("t", "y").Build(),
		bs.NewQuery().FieldRegex("t", "^x").Build(),
		bs.NewQuery().Match(bs.Or(bs.Token("z"), bs.And(bs.Field("n"), bs.Token("dup")))).Build(),
		bs.NewQuery().Token("nosuch").Build(),
	}
	return qs
}()

var c11Prefilters = []bs.PrefilterExpression{
	bs.Partition(bs.PartitionEquals("p")),
	bs.Partition(bs.PartitionNotEquals("p")),
	bs.MinMax("n", bs.NumericGreaterThan(1)),
	bs.MinMax("n", bs.NumericLessThanEqual(0)),
	bs.MinMax("n", bs.NumericEquals(5)),
	bs.PrefilterOr(bs.Partition(bs.PartitionEquals("q")), bs.MinMax("n", bs.NumericLessThan(0))),
	bs.PrefilterAnd(bs.Partition(bs.PartitionEquals("p")), bs.MinMax("n", bs.NumericGreaterThanEqual(9))),
}

type c11snapshot struct {
	canon   string
	files   []string
	blocks  []BlockView
	answers map[string][]string // query id -> rows
	fileSz  map[string]int
}

func c11Canon(w *World, bl []BlockView) string {
	// ordered files -> ordered blocks -> (partition, minmax, compression, sorted rows with
	// the Put position renumbered by first appearance)
	renum := map[string]int{}
	var sb strings.Builder
	cur := ""
	for i := range bl {
		b := &bl[i]
		if b.File != cur {
			sb.WriteString("|F")
			cur = b.File
		}
		keys := make([]string, 0, len(b.Meta.MinMaxIndexes))
		for k, v := range b.Meta.MinMaxIndexes {
			keys = append(keys, fmt.Sprintf("%s=%d..%d", k, v.Min, v.Max))
		}
		sort.Strings(keys)
		rows := make([]string, 0, len(b.Canon))
		for _, c := range b.Canon {
			rows = append(rows, c)
		}
		sort.Strings(rows)
		fmt.Fprintf(&sb, "[%s;%v;%s;%d:", b.Meta.PartitionID, keys, b.Meta.Compression, len(rows))
		for _, r := range rows {
			// replace "s":<n> by a rank
			i := strings.Index(r, `"s":`)
			if i >= 0 {
				j := i + 4
				for j < len(r) && r[j] >= '0' && r[j] <= '9' {
					j++
				}
				key := r[i:j]
				if _, ok := renum[key]; !ok {
					renum[key] = len(renum)
				}
				r = r[:i] + fmt.Sprintf(`"s":#%d`, renum[key]) + r[j:]
			}
			sb.WriteString(r)
			sb.WriteByte(',')
		}
		sb.WriteByte(']')
	}
	h := sha256.Sum256([]byte(sb.String()))
	return fmt.Sprintf("%x", h[:12])
}

func c11Snapshot(w *World, withAnswers bool) (*c11snapshot, error) {
	bl, err := w.Blocks()
	if err != nil {
		return nil, err
	}
	s := &c11snapshot{canon: c11Canon(w, bl), files: w.Meta.Pointers(), blocks: bl, answers: map[string][]string{}, fileSz: map[string]int{}}
	for _, p := range s.files {
		md, _ := w.Meta.Metadata(p)
		for i := range md.DataBlocks {
			s.fileSz[p] += md.DataBlocks[i].OnDiskSize()
		}
	}
	if withAnswers {
		for qi, q := range c11Queries {
			qr := w.Query(q)
			if qr.Err != nil || qr.QueryErr != nil {
				return nil, fmt.Errorf("query %d failed: %v %v", qi, qr.QueryErr, qr.Err)
			}
			s.answers[fmt.Sprintf("q%d", qi)] = qr.Rows
			for pi := range c11Prefilters {
				qq := &bs.Query{Prefilter: &bs.QueryPrefilter{Expression: &c11Prefilters[pi]}}
				if q != nil {
					qq.Bloom, qq.Regex = q.Bloom, q.Regex
				}
				qr := w.Query(qq)
				if qr.Err != nil || qr.QueryErr != nil {
					return nil, fmt.Errorf("query %d/prefilter %d failed: %v %v", qi, pi, qr.QueryErr, qr.Err)
				}
				s.answers[fmt.Sprintf("q%d/p%d", qi, pi)] = qr.Rows
			}
		}
	}
	return s, nil
}

// c11Replay builds the world reached by ops; for the last op, when it is a merge, it
// returns the snapshot before it and the merge's outcome.
func c11Replay(ops []c11op, o mergeOpts, res *CaseResult) (*World, bool) {
	var tok refmodel.Tokenizer
	if o.aliasTok {
		tok = strings.Fields
	}
	w, err := newWorld(c11IngestCfg(o.aliasTok), tok)
	if err != nil {
		res.Findings = append(res.Findings, fnd("setup", "%v", err))
		return nil, false
	}
	for i, op := range ops {
		last := i == len(ops)-1
		if !op.merge {
			if err := w.Put(c11Batch(op.k, i)); err != nil {
				res.Findings = append(res.Findings, fnd("c11-put-failed", "history %s: Put failed: %v", opsString(ops[:i+1]), err))
				w.Close()
				return nil, false
			}
			continue
		}
		cfg := c11MergeCfg(op.k, o.aliasTok)
		eng, err := w.engineWith(cfg)
		if err != nil {
			res.Findings = append(res.Findings, fnd("setup", "%v", err))
			w.Close()
			return nil, false
		}
		var before *c11snapshot
		if last {
			before, err = c11Snapshot(w, o.c11)
			if err != nil {
				res.Findings = append(res.Findings, fnd("c11-snapshot", "history %s: %v", opsString(ops[:i]), err))
				w.Close()
				return nil, false
			}
		}
		stats, merr := eng.Merge(context.Background())
		if merr != nil {
			res.Findings = append(res.Findings, fnd("c11-merge-error", "history %s: Merge failed on healthy stores: %v", opsString(ops[:i+1]), merr))
			w.Close()
			return nil, false
		}
		_ = stats
		if last {
			res.Transitions++
			after, err := c11Snapshot(w, o.c11)
			if err != nil {
				res.Findings = append(res.Findings, fnd("c11-snapshot-after", "history %s: after merge: %v", opsString(ops), err))
				w.Close()
				return nil, false
			}
			checkMergeEdge(opsString(ops), w, cfg, before, after, o, res)
		}
	}
	return w, true
}

func checkMergeEdge(hist string, w *World, cfg bs.BloomSearchEngineConfig, before, after *c11snapshot, o mergeOpts, res *CaseResult) {
	add := func(sig, format string, a ...any) {
		res.Findings = append(res.Findings, fnd(sig, "history %s: "+format, append([]any{hist}, a...)...))
	}
	beforeSet, afterSet := map[string]bool{}, map[string]bool{}
	for _, f := range before.files {
		beforeSet[f] = true
	}
	for _, f := range after.files {
		afterSet[f] = true
	}
	var removed, added []string
	for _, f := range before.files {
		if !afterSet[f] {
			removed = append(removed, f)
		}
	}
	for _, f := range after.files {
		if !beforeSet[f] {
			added = append(added, f)
		}
	}
	if o.c11 && len(removed) > 0 {
		res.Nontrivial++
	}
	if o.c11 {
		var rb, ra []string
		for i := range before.blocks {
			for _, r := range before.blocks[i].Raw {
				rb = append(rb, string(r))
			}
		}
		for i := range after.blocks {
			for _, r := range after.blocks[i].Raw {
				ra = append(ra, string(r))
			}
		}
		if miss, extra := diffMultiset(ra, rb); len(miss)+len(extra) > 0 {
			add("c11-content-changed", "C11 merge changed the stored multiset: lost %s; gained %s", short(miss, 3), short(extra, 3))
		}
		// partition + minmax cover on the merged state
		n := 0
		var fs []Finding
		checkWorldFiles(w, fileOpts{c18: true}, c11IngestCfg().MinMaxIndexes, &fs, &n)
		for _, f := range fs {
			if strings.HasPrefix(f.Sig, "c18-partition") || strings.HasPrefix(f.Sig, "c18-minmax") || strings.HasPrefix(f.Sig, "c18-unknown-row") {
				add("c11-"+f.Sig, "C11 after merge: %s", f.Msg)
			}
		}
		info := map[string]*refmodel.RowInfo{}
		for i := range w.Rows {
			info[w.Rows[i].Info.Canon] = w.Rows[i].Info
		}
		for k, b := range before.answers {
			a := after.answers[k]
			res.Evals++
			if !strings.Contains(k, "/") {
				if miss, extra := diffMultiset(a, b); len(miss)+len(extra) > 0 {
					add("c11-answer-changed", "C11 query %s answers differ after the merge: lost %s; gained %s", k, short(miss, 3), short(extra, 3))
				}
				continue
			}
			if miss, _ := diffMultiset(a, b); len(miss) > 0 {
				add("c11-prefilter-answer-shrank", "C11 prefilter query %s lost rows after the merge: %s", k, short(miss, 3))
			}
			var qi int
			fmt.Sscanf(k, "q%d/", &qi)
			for _, r := range a {
				ri := info[r]
				if ri == nil || !refmodel.MatchQuery(ri, c11Queries[qi], w.Tok) {
					add("c11-prefilter-answer-nonmatching", "C11 prefilter query %s returns %s after the merge, which does not match its bloom/regex expression", k, r)
					break
				}
			}
		}
	}
	if o.c12 {
		res.Evals++
		if len(removed) > cfg.MaxFilesToMergePerOperation {
			add("c12-too-many-files", "C12 one Merge removed %d source files, MaxFilesToMergePerOperation=%d", len(removed), cfg.MaxFilesToMergePerOperation)
		}
		// source blocks of removed files
		var src []*BlockView
		for i := range before.blocks {
			if !afterSet[before.blocks[i].File] {
				src = append(src, &before.blocks[i])
			}
		}
		keyset := func(b *BlockView) string {
			ks := make([]string, 0)
			for k := range b.Meta.MinMaxIndexes {
				ks = append(ks, k)
			}
			sort.Strings(ks)
			return b.Meta.PartitionID + "|" + strings.Join(ks, ",")
		}
		outSources := map[string]map[string]bool{} // output file -> source files
		for i := range after.blocks {
			ob := &after.blocks[i]
			if beforeSet[ob.File] {
				continue
			}
			if outSources[ob.File] == nil {
				outSources[ob.File] = map[string]bool{}
			}
			// which source blocks make up this output block? (rows of different Puts are distinct)
			need := countOf(ob.Canon)
			var parts []*BlockView
			for _, sb := range src {
				have := countOf(sb.Canon)
				all := len(have) > 0
				for r, n := range have {
					if need[r] < n {
						all = false
						break
					}
				}
				if all {
					parts = append(parts, sb)
					for r, n := range have {
						need[r] -= n
					}
					outSources[ob.File][sb.File] = true
				}
			}
			left := 0
			for _, n := range need {
				left += n
			}
			if left != 0 {
				add("c12-not-whole-blocks", "C12 output block %s@%d is not a union of whole source blocks", ob.File, ob.Meta.RowDataOffset)
				continue
			}
			for _, r := range ob.Raw {
				_ = r
			}
			if len(parts) > 1 {
				res.Nontrivial++
				if len(ob.Canon) > cfg.MaxRowGroupRows {
					add("c12-rows-limit", "C12 combined block %s@%d holds %d rows, MaxRowGroupRows=%d", ob.File, ob.Meta.RowDataOffset, len(ob.Canon), cfg.MaxRowGroupRows)
				}
				if ob.Meta.UncompressedSize > cfg.MaxRowGroupBytes {
					add("c12-bytes-limit", "C12 combined block %s@%d holds %d uncompressed bytes, MaxRowGroupBytes=%d", ob.File, ob.Meta.RowDataOffset, ob.Meta.UncompressedSize, cfg.MaxRowGroupBytes)
				}
				k0 := keyset(parts[0])
				for _, p := range parts[1:] {
					if keyset(p) != k0 {
						add("c12-mixed-sources", "C12 combined block %s@%d mixes source blocks with different partition / minmax key sets: %q and %q", ob.File, ob.Meta.RowDataOffset, k0, keyset(p))
						break
					}
				}
			}
		}
		for of, ss := range outSources {
			total := 0
			for s := range ss {
				total += before.fileSz[s]
			}
			if total > cfg.MaxFileSize {
				add("c12-file-size", "C12 output %s replaces sources totalling %d bytes, MaxFileSize=%d", of, total, cfg.MaxFileSize)
			}
		}
	}
	_ = added
}

// c11BFS explores every history starting with `first` up to the given depth.
func c11BFS(first c11op, depth int, o mergeOpts) CaseResult {
	var res CaseResult
	seen := map[string]bool{}
	frontier := [][]c11op{{first}}
	outcomes := map[string]bool{}
	for d := 1; d <= depth && len(frontier) > 0; d++ {
		var next [][]c11op
		for _, ops := range frontier {
			w, ok := c11Replay(ops, o, &res)
			if !ok {
				if len(res.Findings) > 20 {
					return res
				}
				continue
			}
			bl, err := w.Blocks()
			if err != nil {
				res.Findings = append(res.Findings, fnd("c11-readback", "history %s: %v", opsString(ops), err))
				w.Close()
				continue
			}
			key := c11Canon(w, bl)
			nfiles := len(w.Meta.Pointers())
			w.Close()
			outcomes[fmt.Sprintf("%dfiles/%dblocks", nfiles, len(bl))] = true
			if seen[key] {
				continue
			}
			seen[key] = true
			res.States++
			if d == depth {
				continue
			}
			for b := 0; b < c11Batches; b++ {
				next = append(next, append(append([]c11op{}, ops...), c11op{false, b}))
			}
			if nfiles >= 2 {
				for e := 0; e < c11Engines; e++ {
					next = append(next, append(append([]c11op{}, ops...), c11op{true, e}))
				}
			}
		}
		frontier = next
	}
	for k := range outcomes {
		res.Outcomes = append(res.Outcomes, k)
	}
	res.Sample = map[string]any{"first_op": first.String(), "depth": depth, "states": res.States, "merge_edges": res.Transitions}
	return res
}

func mergeCases(tier string, o mergeOpts) []Case {
	depth := 5
	if tier == "thorough" {
		depth = 7
	}
	var cs []Case
	for b := 0; b < c11Batches; b++ {
		// split by the first two Puts so cases run in parallel
		for b2 := 0; b2 < c11Batches; b2++ {
			b, b2 := b, b2
			cs = append(cs, Case{ID: fmt.Sprintf("bfs/P%d-P%d", b, b2), Run: func() CaseResult {
				r := c11BFSFrom([]c11op{{false, b}, {false, b2}}, depth, o)
				return r
			}})
			if o.c11 && b <= b2 {
				// the same search one level shallower with a tokenizer whose tokens alias its input
				oa := o
				oa.aliasTok = true
				cs = append(cs, Case{ID: fmt.Sprintf("bfs-alias-tokenizer/P%d-P%d", b, b2), Run: func() CaseResult {
					return c11BFSFrom([]c11op{{false, b}, {false, b2}}, depth-1, oa)
				}})
			}
		}
	}
	return cs
}

// c11BFSFrom is c11BFS with a multi-op root.
func c11BFSFrom(root []c11op, depth int, o mergeOpts) CaseResult {
	var res CaseResult
	seen := map[string]bool{}
	frontier := [][]c11op{root}
	outcomes := map[string]bool{}
	for d := len(root); d <= depth && len(frontier) > 0; d++ {
		var next [][]c11op
		for _, ops := range frontier {
			w, ok := c11Replay(ops, o, &res)
			if !ok {
				if len(res.Findings) > 20 {
					return res
				}
				continue
			}
			bl, err := w.Blocks()
			if err != nil {
				res.Findings = append(res.Findings, fnd("c11-readback", "history %s: %v", opsString(ops), err))
				w.Close()
				continue
			}
			key := c11Canon(w, bl)
			nfiles := len(w.Meta.Pointers())
			w.Close()
			outcomes[fmt.Sprintf("%dfiles/%dblocks", nfiles, len(bl))] = true
			if seen[key] {
				continue
			}
			seen[key] = true
			res.States++
			if d == depth {
				continue
			}
			for b := 0; b < c11Batches; b++ {
				next = append(next, append(append([]c11op{}, ops...), c11op{false, b}))
			}
			if nfiles >= 2 {
				for e := 0; e < c11Engines; e++ {
					next = append(next, append(append([]c11op{}, ops...), c11op{true, e}))
				}
			}
		}
		frontier = next
	}
	for k := range outcomes {
		res.Outcomes = append(res.Outcomes, k)
	}
	res.Sample = map[string]any{"root": opsString(root), "depth": depth, "states": res.States, "merge_edges": res.Transitions}
	return res
}

func init() {
	modes["C11"] = ModeSpec{
		Cases: func(t string) []Case { return mergeCases(t, mergeOpts{c11: true}) },
		Rule:  "breadth-first search over histories of Put(batch in 5-batch alphabet: partitions p/q/none, minmax key present/absent, floats, beyond-int64 values, duplicate rows) and Merge(by one of 3 differently configured engines) to the stated depth, successor = replay on fresh stores, states deduplicated by canonical form (ordered files > ordered blocks > partition, minmax, compression, row multiset); on every Merge edge: stored multiset, partition/minmax cover, 7 queries x {no prefilter, 7 prefilters} before vs after; the search is repeated one level shallower with a custom tokenizer whose tokens are substrings of its input",
	}
	modes["C12"] = ModeSpec{
		Cases: func(t string) []Case { return mergeCases(t, mergeOpts{c12: true}) },
		Rule:  "same history BFS as C11; on every Merge edge each output block is decomposed into whole source blocks; combined blocks are checked against MaxRowGroupRows/MaxRowGroupBytes of the merging engine, single partition and equal minmax key sets; removed files per Merge against MaxFilesToMergePerOperation; source bytes per output against MaxFileSize",
	}
	_ = c11BFS
}

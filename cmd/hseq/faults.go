package main

import (
	"bytes"
	"context"
	"errors"
	"fmt"
	"sort"
	"strings"
	"sync"
	"time"

	bs "github.com/danthegoodman1/bloomsearch"

	"verif/hstore"
	"verif/refmodel"
)

// E3 — every fault position of a history (C06 flush path, C13 merge path).

var errInjected = errors.New("injected store fault")

// faultCounter numbers the faultable store calls of a run and fails the chosen ones.
type faultCounter struct {
	mu      sync.Mutex
	armed   bool
	n       int
	targets map[int]bool
	log     []string
	fired   []string
	kinds   map[string]bool
}

func (f *faultCounter) hook(store string, skip map[string]bool) *hstore.Hook {
	return &hstore.Hook{
		Enter: func(op, ptr string, n int) error {
			f.mu.Lock()
			defer f.mu.Unlock()
			f.log = append(f.log, store+"."+op+" "+ptr)
			if !f.armed || skip[op] {
				return nil
			}
			f.n++
			if f.targets[f.n] {
				f.fired = append(f.fired, fmt.Sprintf("#%d %s.%s %s", f.n, store, op, ptr))
				return fmt.Errorf("%w (#%d %s.%s)", errInjected, f.n, store, op)
			}
			return nil
		},
	}
}

func (f *faultCounter) arm(on bool) { f.mu.Lock(); f.armed = on; f.mu.Unlock() }

func (f *faultCounter) logFrom(i int) []string {
	f.mu.Lock()
	defer f.mu.Unlock()
	return append([]string(nil), f.log[i:]...)
}

func (f *faultCounter) logLen() int { f.mu.Lock(); defer f.mu.Unlock(); return len(f.log) }

// ---- C06 --------------------------------------------------------------------------------

type c06variant struct {
	withAbort  bool
	shortWrite bool
	rowLimit   bool // flushes are triggered by MaxBufferedRows instead of Flush
	comp       bs.CompressionType
}

func (v c06variant) String() string {
	return fmt.Sprintf("abort=%v short=%v rowlimit=%v %s", v.withAbort, v.shortWrite, v.rowLimit, v.comp)
}

type c06batch struct {
	name string
	rows []map[string]any
	bad  bool
	done chan error
	ack  error
	got  bool
}

// c06Run executes the history with the given fault targets; returns findings and the
// number of faultable calls seen.
func c06Run(v c06variant, targets map[int]bool) (findings []Finding, calls int, sample string) {
	fc := &faultCounter{targets: targets}
	data, meta := hstore.NewMemData(), hstore.NewMemMeta()
	data.WithAbort, data.ShortWrite = v.withAbort, v.shortWrite
	skip := map[string]bool{"OpenFile": true, "Read": true, "Seek": true, "HandleClose": true, "Iter": true, "IterYield": true}
	data.Hook, meta.Hook = fc.hook("data", skip), fc.hook("meta", skip)
	cfg := quietConfig()
	cfg.RowDataCompression = v.comp
	cfg.BloomFalsePositiveRate = 0.01
	cfg.PartitionFunc = func(r map[string]any) string { s, _ := r["p"].(string); return s }
	if v.rowLimit {
		cfg.MaxBufferedRows = 2
	}
	eng, err := bs.NewBloomSearchEngine(cfg, meta, data)
	if err != nil {
		return []Finding{fnd("setup", "%v", err)}, 0, ""
	}
	eng.Start()
	defer func() {
		ctx, cancel := context.WithTimeout(context.Background(), 10*time.Second)
		defer cancel()
		eng.Stop(ctx)
	}()
	batches := []*c06batch{
		{name: "G1", rows: []map[string]any{{"id": "g1a", "p": "x"}, {"id": "g1b", "p": "x"}}},
		{name: "BAD", rows: []map[string]any{{"id": "bad1", "p": "x"}, {"id": "bad2", "f": func() {}}}, bad: true},
		{name: "G2", rows: []map[string]any{{"id": "g2a", "p": "x"}, {"id": "g2b", "p": "y"}}},
		{name: "G3", rows: []map[string]any{{"id": "g3a", "p": "y"}}},
	}
	ctx := context.Background()
	wait := func(b *c06batch) {
		if b.got {
			return
		}
		select {
		case b.ack = <-b.done:
			b.got = true
		case <-time.After(20 * time.Second):
		}
	}
	fc.arm(true)
	for _, b := range batches {
		b.done = make(chan error, 1)
		if err := eng.IngestRows(ctx, b.rows, b.done); err != nil {
			findings = append(findings, fnd("c06-ingest-rejected", "C06 %s: IngestRows(%s) returned %v", v, b.name, err))
			return
		}
		if !v.rowLimit || b.name == "G3" {
			if err := eng.Flush(ctx); err != nil && !errors.Is(err, errInjected) {
				findings = append(findings, fnd("c06-flush-error", "C06 %s: Flush returned %v", v, err))
			}
		}
	}
	for _, b := range batches {
		wait(b)
		if !b.got {
			findings = append(findings, fnd("c06-unanswered", "C06 %s faults %v: batch %s not answered within 20s of the last Flush returning", v, fc.fired, b.name))
		}
	}
	fc.arm(false)
	calls = fc.n
	// two further fault-free flushes and a merge, then the visibility oracle
	eng.Flush(ctx)
	tail := &c06batch{name: "TAIL", rows: []map[string]any{{"id": "tail", "p": "y"}}, done: make(chan error, 1)}
	eng.IngestRows(ctx, tail.rows, tail.done)
	eng.Flush(ctx)
	wait(tail)
	var want []string
	acks := ""
	for _, b := range append(batches, tail) {
		acks += fmt.Sprintf("%s=%v ", b.name, b.ack == nil && b.got)
		if b.bad && (b.ack == nil || !b.got) {
			findings = append(findings, fnd("c06-bad-batch-acked", "C06 %s: the batch with an unmarshalable row was answered with nil", v))
		}
		if b.got && b.ack == nil {
			for _, r := range b.rows {
				want = append(want, fmt.Sprint(r["id"]))
			}
		}
	}
	visible := func(e *bs.BloomSearchEngine, label string) {
		qr := runQuery(e, nil)
		if qr.Err != nil || qr.QueryErr != nil {
			findings = append(findings, fnd("c06-query-error", "C06 %s faults %v: %s query failed: %v %v (acks: %s)", v, fc.fired, label, qr.QueryErr, qr.Err, acks))
			return
		}
		var got []string
		for _, m := range qr.Maps {
			got = append(got, fmt.Sprint(m["id"]))
		}
		miss, extra := diffMultiset(got, want)
		if len(miss) > 0 {
			findings = append(findings, fnd("c06-acked-not-visible", "C06 %s faults %v: rows of nil-acknowledged batches are not visible on %s: %v (acks: %s)", v, fc.fired, label, miss, acks))
		}
		if len(extra) > 0 {
			findings = append(findings, fnd("c06-unacked-visible", "C06 %s faults %v: rows visible on %s that belong to no nil-acknowledged batch (or are duplicated): %v (acks: %s)", v, fc.fired, label, extra, acks))
		}
	}
	check := func(phase string) {
		visible(eng, "this engine "+phase)
		fresh, err := bs.NewBloomSearchEngine(cfg, meta, data)
		if err == nil {
			visible(fresh, "a fresh engine "+phase)
		}
		for _, p := range meta.Pointers() {
			b, ok := data.Bytes(p)
			if !ok {
				findings = append(findings, fnd("c06-dangling-pointer", "C06 %s faults %v: MetaStore references %s which the DataStore does not hold", v, fc.fired, p))
				continue
			}
			if _, _, err := bs.ReadFileMetadata(bytes.NewReader(b)); err != nil {
				findings = append(findings, fnd("c06-unreadable-file", "C06 %s faults %v: referenced file %s does not parse: %v", v, fc.fired, p, err))
			}
		}
	}
	check("before merge")
	if _, err := eng.Merge(ctx); err != nil {
		findings = append(findings, fnd("c06-merge-error", "C06 %s faults %v: fault-free Merge afterwards failed: %v", v, fc.fired, err))
	}
	check("after merge")
	sample = fmt.Sprintf("%s faults=%v acks: %s", v, fc.fired, acks)
	return
}

func c06Cases(tier string) []Case {
	vars := []c06variant{
		{true, false, false, bs.CompressionNone},
		{false, false, false, bs.CompressionSnappy},
		{true, true, true, bs.CompressionZstd},
		{false, true, true, bs.CompressionNone},
	}
	var cs []Case
	for _, v := range vars {
		v := v
		cs = append(cs, Case{ID: "singles/" + v.String(), Run: func() CaseResult {
			var res CaseResult
			_, n, _ := c06Run(v, nil)
			outcomes := map[string]bool{}
			for k := 0; k <= n; k++ {
				t := map[int]bool{}
				if k > 0 {
					t[k] = true
				}
				fs, _, sample := c06Run(v, t)
				res.Evals++
				if k > 0 {
					res.Nontrivial++
				}
				outcomes[sample[strings.Index(sample, "acks:"):]] = true
				res.Findings = append(res.Findings, fs...)
				if k == n/2 {
					res.Sample = sample
				}
				if len(res.Findings) > 10 {
					break
				}
			}
			for o := range outcomes {
				res.Outcomes = append(res.Outcomes, o)
			}
			return res
		}})
	}
	if tier == "thorough" {
		for _, v := range vars {
			v := v
			_, n, _ := c06Run(v, nil)
			for a := 1; a <= n; a++ {
				a := a
				cs = append(cs, Case{ID: fmt.Sprintf("pairs/%s/%d", v, a), Run: func() CaseResult {
					var res CaseResult
					for b := a + 1; b <= n+3; b++ { // a failure shifts later calls: probe a little past n
						fs, _, sample := c06Run(v, map[int]bool{a: true, b: true})
						res.Evals++
						res.Nontrivial++
						res.Findings = append(res.Findings, fs...)
						res.Sample = sample
						if len(res.Findings) > 6 {
							break
						}
					}
					return res
				}})
			}
		}
	}
	return cs
}

// ---- C13 --------------------------------------------------------------------------------

type c13variant struct {
	withAbort bool
	files     int // 4 = two merge groups of two files, 3 = one group of three
}

func (v c13variant) String() string { return fmt.Sprintf("abort=%v files=%d", v.withAbort, v.files) }

func c13Run(v c13variant, targets map[int]bool, iterFail int) (findings []Finding, calls int, sample string) {
	fc := &faultCounter{targets: targets}
	data, meta := hstore.NewMemData(), hstore.NewMemMeta()
	data.WithAbort = v.withAbort
	skip := map[string]bool{"HandleClose": true, "Iter": true, "IterYield": true}
	data.Hook, meta.Hook = fc.hook("data", skip), fc.hook("meta", skip)
	cfg := quietConfig()
	cfg.RowDataCompression = bs.CompressionSnappy
	cfg.BloomFalsePositiveRate = 0.01
	cfg.PartitionFunc = func(r map[string]any) string { s, _ := r["p"].(string); return s }
	cfg.MaxFilesToMergePerOperation = 6
	eng, err := bs.NewBloomSearchEngine(cfg, meta, data)
	if err != nil {
		return []Finding{fnd("setup", "%v", err)}, 0, ""
	}
	eng.Start()
	defer func() {
		ctx, cancel := context.WithTimeout(context.Background(), 10*time.Second)
		defer cancel()
		eng.Stop(ctx)
	}()
	ctx := context.Background()
	put := func(rows []map[string]any) {
		done := make(chan error, 1)
		eng.IngestRows(ctx, rows, done)
		eng.Flush(ctx)
		<-done
	}
	if v.files == 4 {
		put([]map[string]any{{"id": "a1", "p": "x"}})
		put([]map[string]any{{"id": "a2", "p": "x"}, {"id": "a3", "p": "x"}})
		put([]map[string]any{{"id": "b1", "p": "y"}})
		put([]map[string]any{{"id": "b2", "p": "y"}})
	} else {
		put([]map[string]any{{"id": "a1", "p": "x"}, {"id": "c1", "p": "z"}})
		put([]map[string]any{{"id": "a2", "p": "x"}})
		put([]map[string]any{{"id": "a3", "p": "x"}, {"id": "b1", "p": "y"}})
	}
	beforePtrs := meta.Pointers()
	beforeRows := runQuery(eng, nil).Rows
	if iterFail >= 0 {
		meta.IterErr = func(i int) error {
			if i == iterFail {
				return fmt.Errorf("%w (iterator position %d)", errInjected, i)
			}
			return nil
		}
	}
	logStart := fc.logLen()
	fc.arm(true)
	stats, merr := eng.Merge(ctx)
	fc.arm(false)
	meta.IterErr = nil
	calls = fc.n
	log := fc.logFrom(logStart)
	afterPtrs := meta.Pointers()
	afterSet := map[string]bool{}
	for _, p := range afterPtrs {
		afterSet[p] = true
	}
	beforeSet := map[string]bool{}
	for _, p := range beforePtrs {
		beforeSet[p] = true
	}
	// did an Update with writes and deletes return nil?
	committed := false
	updateIdx := -1
	for i, l := range log {
		if strings.HasPrefix(l, "meta.Update +") && strings.Contains(l, " -f") {
			updateIdx = i
		}
	}
	removedAny := false
	for _, p := range beforePtrs {
		if !afterSet[p] {
			removedAny = true
		}
	}
	committed = removedAny
	label := fmt.Sprintf("C13 %s faults %v iterFail=%d", v, fc.fired, iterFail)
	afterRows := runQuery(eng, nil)
	if afterRows.Err != nil || afterRows.QueryErr != nil {
		findings = append(findings, fnd("c13-query-error", "%s: query after the merge failed: %v %v", label, afterRows.QueryErr, afterRows.Err))
	}
	if miss, extra := diffMultiset(afterRows.Rows, beforeRows); len(miss)+len(extra) > 0 {
		findings = append(findings, fnd("c13-visible-content-changed", "%s: visible rows changed: lost %v gained %v (merge returned stats=%v err=%v, committed=%v)", label, miss, extra, stats != nil, merr, committed))
	}
	tombstoned := func(p string) int {
		for i, l := range log {
			if l == "data.TombstoneFile "+p {
				return i
			}
		}
		return -1
	}
	if committed {
		var newPtrs []string
		for _, p := range afterPtrs {
			if !beforeSet[p] {
				newPtrs = append(newPtrs, p)
			}
		}
		for _, p := range newPtrs {
			b, ok := data.Bytes(p)
			if !ok {
				findings = append(findings, fnd("c13-output-missing", "%s: committed output %s is not in the DataStore", label, p))
				continue
			}
			// "commits only durable output": a committed output is a complete file (a reader that
			// holds only the pointer — a directory scan, an external MetaStore — must be able to use it)
			if _, _, err := bs.ReadFileMetadata(bytes.NewReader(b)); err != nil {
				findings = append(findings, fnd("c13-output-incomplete", "%s: committed output %s is not a complete file: %v", label, p, err))
			} else if _, err := refmodel.ParseFile(b); err != nil {
				findings = append(findings, fnd("c13-output-incomplete", "%s: committed output %s does not parse by FILE_FORMAT.md: %v", label, p, err))
			}
		}
		tombFailed := false
		for _, f := range fc.fired {
			if strings.Contains(f, "data.TombstoneFile") {
				tombFailed = true
			}
		}
		for _, p := range beforePtrs {
			if afterSet[p] {
				continue
			}
			ti := tombstoned(p)
			if ti >= 0 && ti < updateIdx {
				findings = append(findings, fnd("c13-tombstone-before-commit", "%s: source %s tombstoned before the MetaStore commit", label, p))
			}
		}
		switch {
		case merr == nil && stats == nil:
			findings = append(findings, fnd("c13-committed-no-stats", "%s: merge committed but returned (nil, nil)", label))
		case merr != nil && !errors.Is(merr, bs.ErrPostCommitCleanup):
			findings = append(findings, fnd("c13-committed-but-error", "%s: merge committed but returned an error that does not wrap ErrPostCommitCleanup: %v", label, merr))
		case merr != nil && stats == nil:
			findings = append(findings, fnd("c13-cleanup-error-no-stats", "%s: ErrPostCommitCleanup without stats", label))
		case merr != nil && !tombFailed:
			findings = append(findings, fnd("c13-cleanup-error-without-failure", "%s: ErrPostCommitCleanup although no source tombstone failed", label))
		case merr == nil && tombFailed:
			findings = append(findings, fnd("c13-cleanup-failure-hidden", "%s: a source tombstone failed after the commit but Merge returned nil", label))
		}
	} else {
		if fmt.Sprint(afterPtrs) != fmt.Sprint(beforePtrs) {
			findings = append(findings, fnd("c13-partial-commit", "%s: referenced files changed without a commit: %v -> %v", label, beforePtrs, afterPtrs))
		}
		mutated := false
		for _, l := range log {
			if strings.HasPrefix(l, "data.CreateFile") || strings.HasPrefix(l, "meta.Update") {
				mutated = true
			}
		}
		if merr == nil && mutated {
			findings = append(findings, fnd("c13-nil-without-commit", "%s: Merge returned nil error without committing although it started store mutations", label))
		}
		if merr != nil && stats != nil {
			findings = append(findings, fnd("c13-stats-with-error", "%s: Merge failed (%v) but returned stats", label, merr))
		}
		for _, p := range beforePtrs {
			if tombstoned(p) >= 0 {
				findings = append(findings, fnd("c13-source-tombstoned-uncommitted", "%s: source %s tombstoned although the merge did not commit", label, p))
			}
			if _, ok := data.Bytes(p); !ok {
				findings = append(findings, fnd("c13-source-lost", "%s: source %s no longer in the DataStore although the merge did not commit", label, p))
			}
		}
		// no partial output stays published
		for _, p := range data.Files() {
			if !beforeSet[p] {
				// an orphan whose own clean-up call was one of the injected failures cannot be
				// removed by the engine: it is unreferenced, which is all the property asks for
				cleanupFailed := false
				for _, f := range fc.fired {
					if strings.HasSuffix(f, "data.TombstoneFile "+p) || strings.HasSuffix(f, "data.Abort "+p) {
						cleanupFailed = true
					}
				}
				if cleanupFailed {
					continue
				}
				findings = append(findings, fnd("c13-orphan-output", "%s: output %s stays published in the DataStore after an uncommitted merge", label, p))
			}
		}
	}
	sample = fmt.Sprintf("%s committed=%v err=%v", label, committed, merr)
	return
}

func c13Cases(tier string) []Case {
	var cs []Case
	for _, v := range []c13variant{{true, 4}, {false, 4}, {true, 3}, {false, 3}} {
		v := v
		cs = append(cs, Case{ID: "singles/" + v.String(), Run: func() CaseResult {
			var res CaseResult
			_, n, _ := c13Run(v, nil, -1)
			outcomes := map[string]bool{}
			for k := 0; k <= n; k++ {
				t := map[int]bool{}
				if k > 0 {
					t[k] = true
				}
				fs, _, sample := c13Run(v, t, -1)
				res.Evals++
				res.Nontrivial++
				outcomes[sample[strings.Index(sample, "committed="):]] = true
				res.Findings = append(res.Findings, fs...)
				if k == n/2 {
					res.Sample = sample
				}
				if len(res.Findings) > 10 {
					break
				}
			}
			for it := 0; it < v.files+1; it++ {
				fs, _, _ := c13Run(v, nil, it)
				res.Evals++
				res.Findings = append(res.Findings, fs...)
			}
			for o := range outcomes {
				res.Outcomes = append(res.Outcomes, o)
			}
			sort.Strings(res.Outcomes)
			return res
		}})
	}
	if tier == "thorough" {
		for _, v := range []c13variant{{true, 4}, {false, 4}, {true, 3}} {
			v := v
			_, n, _ := c13Run(v, nil, -1)
			for a := 1; a <= n; a++ {
				a := a
				cs = append(cs, Case{ID: fmt.Sprintf("pairs/%s/%d", v, a), Run: func() CaseResult {
					var res CaseResult
					for b := a + 1; b <= n+4; b++ {
						fs, _, sample := c13Run(v, map[int]bool{a: true, b: true}, -1)
						res.Evals++
						res.Nontrivial++
						res.Findings = append(res.Findings, fs...)
						res.Sample = sample
						if len(res.Findings) > 6 {
							break
						}
					}
					return res
				}})
			}
		}
	}
	cs = append(cs, Case{ID: "single-flight", Run: c13SingleFlight})
	return cs
}

// c13SingleFlight: a Merge that begins and ends while another is in progress (held inside
// a store call) must return ErrMergeInProgress and change nothing.
func c13SingleFlight() CaseResult {
	var res CaseResult
	data, meta := hstore.NewMemData(), hstore.NewMemMeta()
	cfg := quietConfig()
	cfg.BloomFalsePositiveRate = 0.01
	eng, _ := bs.NewBloomSearchEngine(cfg, meta, data)
	eng.Start()
	defer eng.Stop(context.Background())
	ctx := context.Background()
	for i := 0; i < 3; i++ {
		done := make(chan error, 1)
		eng.IngestRows(ctx, []map[string]any{{"id": i}}, done)
		eng.Flush(ctx)
		<-done
	}
	before := runQuery(eng, nil).Rows
	gate2 := make(chan struct{})
	entered2 := make(chan struct{}, 1)
	var once2 sync.Once
	data.Hook = &hstore.Hook{Enter: func(op, ptr string, n int) error {
		if op == "CreateFile" {
			hit := false
			once2.Do(func() { hit = true })
			if hit {
				entered2 <- struct{}{}
				<-gate2
			}
		}
		return nil
	}}
	firstDone := make(chan error, 1)
	go func() { _, err := eng.Merge(ctx); firstDone <- err }()
	select {
	case <-entered2:
	case <-time.After(10 * time.Second):
		res.Findings = append(res.Findings, fnd("c13-singleflight-setup", "first merge never reached CreateFile"))
		close(gate2)
		return res
	}
	_, err2 := eng.Merge(ctx)
	res.Evals = 1
	res.Nontrivial = 1
	if !errors.Is(err2, bs.ErrMergeInProgress) {
		res.Findings = append(res.Findings, fnd("c13-no-single-flight", "C13: a Merge called while another Merge is inside CreateFile returned %v, want ErrMergeInProgress", err2))
	}
	close(gate2)
	if err := <-firstDone; err != nil {
		res.Findings = append(res.Findings, fnd("c13-first-merge-failed", "C13: the first merge failed: %v", err))
	}
	after := runQuery(eng, nil).Rows
	if miss, extra := diffMultiset(after, before); len(miss)+len(extra) > 0 {
		res.Findings = append(res.Findings, fnd("c13-singleflight-content", "C13: content changed across concurrent merges: lost %v gained %v", miss, extra))
	}
	return res
}

func init() {
	modes["C06"] = ModeSpec{
		Cases: func(t string) []Case { return append(c06Cases(t), c06HistCases(t)...) },
		Rule:  "ingest histories of <= 4 (quick) / 5 (thorough) steps over {good one/two-partition batches, batches with an unmarshalable or nil row in another / the same / a new partition than their good rows, Flush} with buffers left standing between batches, with and without a row-limit flush trigger, each poisoned history run 4 / 8 times because the partition walk follows Go map order: rejected batches must leave no trace, good batches must be acknowledged nil; plus a 4-batch history (good, unmarshalable, two-partition, good; explicit and row-limit flush triggers) over 4 store variants (writer with/without Abort, short writes, 3 compressions) is re-run with a failure injected at every store call position (CreateFile, Write, Close, Abort, TombstoneFile, Update) — singly in quick, every ordered pair in thorough; after two further fault-free flushes and a Merge the visible rows on this engine and on a fresh engine must equal the rows of nil-acknowledged batches, each once",
	}
	modes["C13"] = ModeSpec{
		Cases: c13Cases,
		Rule:  "Merge over 3-4 files in 1-2 merge groups is re-run with a failure at every store call position of every kind (iterator position, CreateFile, OpenFile, Seek, Read, Write, Close, Abort, Update, TombstoneFile), singly and (thorough) in pairs; committed-xor-unchanged oracle on MetaStore, DataStore, call log, return values and query answers; committed outputs must be complete, independently parseable files; plus the single-flight scenario with a Merge held inside CreateFile",
	}
}

// ---- C06: batch atomicity over ingest histories --------------------------------------------
//
// Histories over an alphabet of good, poisoned (unmarshalable or nil row) and multi-partition
// batches and explicit flushes, with buffers left standing between batches. A rejected batch
// must leave no trace whatever already sits in the partition buffers it touches. The order in
// which the engine walks a batch's partitions is Go map order (random in this build), so
// every history is run several times; no outcome of any run may violate the oracle.

var c06HistAlphabet = []string{"G:a", "G:ab", "B:a/b", "B:b/a", "B:ab/c", "N:ab", "B:/a", "F"}

func c06HistRun(hist []string, rowLimit int) (findings []Finding, sample string) {
	data, meta := hstore.NewMemData(), hstore.NewMemMeta()
	cfg := quietConfig()
	cfg.BloomFalsePositiveRate = 0.01
	cfg.PartitionFunc = func(r map[string]any) string { s, _ := r["p"].(string); return s }
	if rowLimit > 0 {
		cfg.MaxBufferedRows = rowLimit
	}
	eng, err := bs.NewBloomSearchEngine(cfg, meta, data)
	if err != nil {
		return []Finding{fnd("setup", "%v", err)}, ""
	}
	eng.Start()
	defer func() {
		ctx, cancel := context.WithTimeout(context.Background(), 10*time.Second)
		defer cancel()
		eng.Stop(ctx)
	}()
	ctx := context.Background()
	var batches []*c06batch
	name := strings.Join(hist, " ")
	for i, st := range append(append([]string{}, hist...), "F") {
		if st == "F" {
			if err := eng.Flush(ctx); err != nil {
				findings = append(findings, fnd("c06-flush-error", "C06 history [%s]: Flush returned %v", name, err))
			}
			continue
		}
		kind, spec := st[:1], st[2:]
		good, badPart := spec, ""
		if j := strings.Index(spec, "/"); j >= 0 {
			good, badPart = spec[:j], spec[j+1:]
		}
		b := &c06batch{name: fmt.Sprintf("%d%s", i, st), done: make(chan error, 1), bad: kind != "G"}
		for _, p := range good {
			b.rows = append(b.rows, map[string]any{"id": fmt.Sprintf("%s.%c", b.name, p), "p": string(p)})
		}
		switch kind {
		case "B":
			b.rows = append(b.rows, map[string]any{"id": b.name + ".bad", "p": badPart, "f": func() {}})
		case "N":
			b.rows = append(b.rows, nil)
		}
		if err := eng.IngestRows(ctx, b.rows, b.done); err != nil {
			findings = append(findings, fnd("c06-ingest-rejected", "C06 history [%s]: IngestRows(%s) returned %v", name, b.name, err))
			return
		}
		batches = append(batches, b)
	}
	var want []string
	acks := ""
	for _, b := range batches {
		select {
		case b.ack = <-b.done:
			b.got = true
		case <-time.After(20 * time.Second):
			findings = append(findings, fnd("c06-unanswered", "C06 history [%s]: batch %s not answered within 20s of the last Flush returning", name, b.name))
		}
		acks += fmt.Sprintf("%s=%v ", b.name, b.ack == nil && b.got)
		if b.bad && b.got && b.ack == nil {
			findings = append(findings, fnd("c06-bad-batch-acked", "C06 history [%s]: batch %s with an unmarshalable or nil row was answered with nil", name, b.name))
		}
		if !b.bad && b.got && b.ack != nil {
			findings = append(findings, fnd("c06-good-batch-failed", "C06 history [%s]: good batch %s was answered %v on healthy stores (other batches must be unaffected)", name, b.name, b.ack))
		}
		if b.got && b.ack == nil {
			for _, r := range b.rows {
				want = append(want, fmt.Sprint(r["id"]))
			}
		}
	}
	for _, e := range []struct {
		label string
		fresh bool
	}{{"this engine", false}, {"a fresh engine", true}} {
		en := eng
		if e.fresh {
			if en, err = bs.NewBloomSearchEngine(cfg, meta, data); err != nil {
				continue
			}
		}
		qr := runQuery(en, nil)
		if qr.Err != nil || qr.QueryErr != nil {
			findings = append(findings, fnd("c06-query-error", "C06 history [%s]: query on %s failed: %v %v", name, e.label, qr.QueryErr, qr.Err))
			continue
		}
		var got []string
		for _, m := range qr.Maps {
			got = append(got, fmt.Sprint(m["id"]))
		}
		miss, extra := diffMultiset(got, want)
		if len(miss) > 0 {
			findings = append(findings, fnd("c06-acked-not-visible", "C06 history [%s]: rows of nil-acknowledged batches are not visible on %s: %v (acks: %s)", name, e.label, miss, acks))
		}
		if len(extra) > 0 {
			findings = append(findings, fnd("c06-unacked-visible", "C06 history [%s]: rows visible on %s that belong to no nil-acknowledged batch (a rejected batch left a trace, or a duplicate): %v (acks: %s)", name, e.label, extra, acks))
		}
	}
	return findings, "history [" + name + "] acks: " + acks
}

func c06HistCases(tier string) []Case {
	depth, repeats := 4, 4
	if tier == "thorough" {
		depth, repeats = 5, 8
	}
	var cs []Case
	for fi, first := range c06HistAlphabet {
		first := first
		for _, rl := range []int{0, 3} {
			rl := rl
			if fi == len(c06HistAlphabet)-1 && rl > 0 {
				continue
			}
			cs = append(cs, Case{ID: fmt.Sprintf("history/%s/rowlimit%d", first, rl), Run: func() CaseResult {
				var res CaseResult
				outcomes := map[string]bool{}
				var rec func(h []string)
				rec = func(h []string) {
					poisoned := false
					for _, s := range h {
						if s[0] != 'G' && s[0] != 'F' {
							poisoned = true
						}
					}
					for r := 0; r < repeats; r++ {
						fs, sample := c06HistRun(h, rl)
						res.Evals++
						outcomes[sample] = true
						res.Findings = append(res.Findings, fs...)
						res.Sample = sample
						if !poisoned {
							break // nothing order dependent in a history of good batches
						}
					}
					res.Transitions++
					if poisoned {
						res.Nontrivial++
					}
					if len(h) == depth || len(res.Findings) > 8 {
						return
					}
					for _, s := range c06HistAlphabet {
						if s == "F" && h[len(h)-1] == "F" {
							continue
						}
						rec(append(append([]string{}, h...), s))
					}
				}
				rec([]string{first})
				res.States = len(outcomes)
				n := 0
				for o := range outcomes {
					if n < 6 {
						res.Outcomes = append(res.Outcomes, o)
					}
					n++
				}
				return res
			}})
		}
	}
	return cs
}

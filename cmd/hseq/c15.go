package main

import (
	"context"
	"crypto/sha256"
	"encoding/json"
	"fmt"
	"os"
	"path/filepath"
	"sort"
	"strings"
	"time"

	bs "github.com/danthegoodman1/bloomsearch"

	"verif/refmodel"
	"verif/vos"
)

// C15 — crash consistency of FileSystemDataStore used as both stores (engine E4).
//
// A history runs on the real write path over a real directory; package os inside
// file_system_store.go is replaced (build overlay) by the logging shim verif/vos. From the
// operation log every post-crash directory state is derived:
//   - process crash: after every operation, and inside every write at prefixes
//     {0, 1, n/2, n-1} (torn write);
//   - power loss at the same points under the stated durability model: file data is
//     durable up to its last fsync (an unsynced tail is absent, or — second policy — fully
//     present); directory operations (create/rename/remove) are durable once the directory
//     was fsynced afterwards; the not-yet-durable ones survive as any prefix of their issue
//     order (quick) or as any subset (thorough).
// Each state is materialised into a fresh directory and recovered with a new engine.

type c15inode struct {
	data   []byte
	synced int
}

type c15dirop struct {
	kind     string
	name, to string
	ino      *c15inode
}

type c15state struct {
	label string
	files map[string][]byte
	acked map[string]bool // batches acknowledged nil before the crash point
}

func cloneDir(m map[string]*c15inode) map[string]*c15inode {
	o := make(map[string]*c15inode, len(m))
	for k, v := range m {
		o[k] = v
	}
	return o
}

func applyDirOp(d map[string]*c15inode, op c15dirop) {
	switch op.kind {
	case "create":
		d[op.name] = op.ino
	case "rename":
		if ino, ok := d[op.name]; ok {
			d[op.to] = ino
			delete(d, op.name)
		} else if op.ino != nil {
			// the source entry's creation did not survive: the rename has nothing to move
		}
	case "remove":
		delete(d, op.name)
	}
}

// crashStates enumerates the post-crash directory states of a log.
func crashStates(ops []vos.Op, subsets bool) []c15state {
	var out []c15state
	vol := map[string]*c15inode{}
	dur := map[string]*c15inode{}
	var pending []c15dirop
	fds := map[int]*c15inode{}
	acked := map[string]bool{}
	snapshotAcks := func() map[string]bool {
		m := map[string]bool{}
		for k := range acked {
			m[k] = true
		}
		return m
	}
	emit := func(label string, torn *c15inode, tornData []byte) {
		a := snapshotAcks()
		content := func(ino *c15inode, policy string) []byte {
			d := ino.data
			if ino == torn {
				d = append(append([]byte(nil), ino.data...), tornData...)
			}
			if policy == "synced" {
				return append([]byte(nil), d[:ino.synced]...)
			}
			return append([]byte(nil), d...)
		}
		// process crash
		f := map[string][]byte{}
		for n, ino := range vol {
			f[n] = content(ino, "full")
		}
		out = append(out, c15state{label + " process-crash", f, a})
		// power loss
		var sel [][]c15dirop
		if subsets && len(pending) <= 8 {
			for mask := 0; mask < 1<<len(pending); mask++ {
				var s []c15dirop
				for i := range pending {
					if mask&(1<<i) != 0 {
						s = append(s, pending[i])
					}
				}
				sel = append(sel, s)
			}
		} else {
			for k := 0; k <= len(pending); k++ {
				sel = append(sel, pending[:k])
			}
		}
		for si, s := range sel {
			d := cloneDir(dur)
			for _, op := range s {
				applyDirOp(d, op)
			}
			for _, policy := range []string{"synced", "full"} {
				f := map[string][]byte{}
				for n, ino := range d {
					f[n] = content(ino, policy)
				}
				out = append(out, c15state{fmt.Sprintf("%s power-loss dirops=%d/%d data=%s", label, si, len(sel)-1, policy), f, a})
			}
		}
	}
	emit("before op 0", nil, nil)
	for i, op := range ops {
		if op.Err {
			continue
		}
		base := filepath.Base(op.Path)
		switch op.Kind {
		case "mark":
			if strings.HasPrefix(op.Note, "ack ") {
				acked[strings.TrimPrefix(op.Note, "ack ")] = true
			}
			continue
		case "create":
			ino := &c15inode{}
			vol[base] = ino
			fds[op.FD] = ino
			pending = append(pending, c15dirop{kind: "create", name: base, ino: ino})
		case "open":
			if ino, ok := vol[base]; ok {
				fds[op.FD] = ino
			}
		case "write":
			ino := fds[op.FD]
			if ino == nil {
				continue
			}
			n := len(op.Data)
			for _, k := range []int{0, 1, n / 2, n - 1} {
				if k > 0 && k < n {
					emit(fmt.Sprintf("inside op %d write(%s) %d/%d bytes", i, base, k, n), ino, op.Data[:k])
				}
			}
			ino.data = append(ino.data, op.Data...)
		case "fsync":
			if ino := fds[op.FD]; ino != nil {
				ino.synced = len(ino.data)
			}
		case "close":
		case "rename":
			to := filepath.Base(op.To)
			ino := vol[base]
			vol[to] = ino
			delete(vol, base)
			pending = append(pending, c15dirop{kind: "rename", name: base, to: to, ino: ino})
		case "remove":
			delete(vol, base)
			pending = append(pending, c15dirop{kind: "remove", name: base})
		case "fsyncdir":
			dur = cloneDir(vol)
			pending = nil
		default:
			continue
		}
		emit(fmt.Sprintf("after op %d %s(%s)", i, op.Kind, base), nil, nil)
	}
	return out
}

type c15history struct {
	name    string
	batches map[string][]string // batch -> row ids
	log     []vos.Op
}

func c15Cfg() bs.BloomSearchEngineConfig {
	c := quietConfig()
	c.RowDataCompression = bs.CompressionSnappy
	c.BloomFalsePositiveRate = 0.01
	c.PartitionFunc = func(r map[string]any) string { s, _ := r["p"].(string); return s }
	c.MaxFilesToMergePerOperation = 4
	return c
}

// runHistory executes a scripted history on a fresh directory and returns its log.
// script items: "ingest:<batch>", "flush", "merge", "fault:<n>" (next mutating fs call n
// of the following step fails).
func c15RunHistory(name string, script []string, faultAt int, cancelAt ...int) (*c15history, error) {
	dir, err := os.MkdirTemp(shmDir(), "c15h-")
	if err != nil {
		return nil, err
	}
	defer os.RemoveAll(dir)
	rec := vos.Record(dir)
	defer rec.Stop()
	store := bs.NewFileSystemDataStore(dir)
	n := 0
	// file1, file10, file100, file2, file20, ...: every name is a proper prefix of the next two,
	// so an operation on one file that touches "everything starting with its name" hits others
	store.VerifSetFileNameDraw(func() string {
		n++
		return fmt.Sprintf("file%d%s", 1+(n-1)/3, strings.Repeat("0", (n-1)%3))
	})
	eng, err := bs.NewBloomSearchEngine(c15Cfg(), store, store)
	if err != nil {
		return nil, err
	}
	eng.Start()
	defer func() {
		ctx, cancel := context.WithTimeout(context.Background(), 10*time.Second)
		defer cancel()
		eng.Stop(ctx)
	}()
	h := &c15history{name: name, batches: map[string][]string{}}
	ctx := context.Background()
	type pend struct {
		name string
		done chan error
	}
	var pending []pend
	if faultAt > 0 {
		rec.SetFaults(map[int]bool{faultAt: true})
	}
	// the context given to Merge (an operator's deadline, a signal handler's context) ends just
	// before the n-th mutating filesystem call
	mctx, mcancel := context.WithCancel(ctx)
	defer mcancel()
	if len(cancelAt) > 0 && cancelAt[0] > 0 {
		rec.CancelAt(cancelAt[0], mcancel)
	}
	for _, step := range script {
		switch {
		case strings.HasPrefix(step, "ingest:"):
			b := strings.TrimPrefix(step, "ingest:")
			var rows []map[string]any
			for i, p := range []string{"x", "y"} {
				id := fmt.Sprintf("%s-%d", b, i)
				rows = append(rows, map[string]any{"id": id, "p": p})
				h.batches[b] = append(h.batches[b], id)
			}
			done := make(chan error, 1)
			if err := eng.IngestRows(ctx, rows, done); err != nil {
				return nil, err
			}
			pending = append(pending, pend{b, done})
		case step == "flush":
			eng.Flush(ctx)
			for _, p := range pending {
				select {
				case err := <-p.done:
					if err == nil {
						rec.Mark("ack " + p.name)
					} else {
						rec.Mark("nack " + p.name)
					}
				case <-time.After(20 * time.Second):
					return nil, fmt.Errorf("batch %s unanswered", p.name)
				}
			}
			pending = nil
		case step == "merge":
			_, err := eng.Merge(mctx)
			rec.Mark(fmt.Sprintf("merge returned err=%v", err != nil))
		}
	}
	h.log = rec.Log()
	return h, nil
}

// recover materialises a state and queries it with a fresh engine.
func c15Recover(st c15state, h *c15history) (fs []Finding) {
	dir, err := os.MkdirTemp(shmDir(), "c15r-")
	if err != nil {
		return []Finding{fnd("setup", "%v", err)}
	}
	defer os.RemoveAll(dir)
	for n, b := range st.files {
		if err := os.WriteFile(filepath.Join(dir, n), b, 0o600); err != nil {
			return []Finding{fnd("setup", "%v", err)}
		}
	}
	store := bs.NewFileSystemDataStore(dir)
	eng, err := bs.NewBloomSearchEngine(c15Cfg(), store, store)
	if err != nil {
		return []Finding{fnd("setup", "%v", err)}
	}
	qr := runQuery(eng, nil)
	label := fmt.Sprintf("C15 history %s, crash state [%s] (files: %s)", h.name, st.label, describeFiles(st.files))
	if qr.QueryErr != nil || qr.Err != nil {
		fs = append(fs, fnd("c15-unreadable-visible-file", "%s: a fresh engine lists a file it cannot read completely: %v %v", label, qr.QueryErr, qr.Err))
		return
	}
	got := map[string]int{}
	for _, m := range qr.Maps {
		got[fmt.Sprint(m["id"])]++
	}
	ingested := map[string]bool{}
	for _, ids := range h.batches {
		for _, id := range ids {
			ingested[id] = true
		}
	}
	for b := range st.acked {
		for _, id := range h.batches[b] {
			if got[id] == 0 {
				fs = append(fs, fnd("c15-acked-row-lost", "%s: row %s of batch %s, acknowledged before the crash, is not visible after recovery", label, id, b))
			}
		}
	}
	dups := map[string]bool{}
	for id, n := range got {
		if !ingested[id] {
			fs = append(fs, fnd("c15-foreign-row", "%s: row %s was never ingested", label, id))
		}
		if n > 1 {
			dups[id] = true
		}
	}
	if len(dups) > 0 {
		sig := "c15-duplicate-row"
		if strings.Contains(h.name, "merge") && c15MergeWindow(st, dups) {
			sig = "c15-duplicate-row-merge-window" // catalogued: output published, sources not yet removed
		}
		var l []string
		for id := range dups {
			l = append(l, id)
		}
		sort.Strings(l)
		fs = append(fs, fnd(sig, "%s: rows %v are visible more often than they were ingested", label, l))
	}
	return
}

// c15MergeWindow reports whether the duplicated rows are exactly explained by the
// catalogued window of FileSystemDataStore.Update: a merge output is published while
// (some of) its sources have not been removed yet, i.e. the duplicated ids are exactly the
// ids of files whose rows are all contained in another present file.
func c15MergeWindow(st c15state, dups map[string]bool) bool {
	ids := map[string]map[string]bool{}
	for name, b := range st.files {
		if !strings.HasSuffix(name, ".dat") || len(b) == 0 {
			continue
		}
		pf, err := refmodel.ParseFile(b)
		if err != nil {
			continue
		}
		set := map[string]bool{}
		for _, blk := range pf.Blocks {
			for _, rb := range blk.Rows {
				var m map[string]any
				if json.Unmarshal(rb, &m) == nil {
					set[fmt.Sprint(m["id"])] = true
				}
			}
		}
		ids[name] = set
	}
	expected := map[string]bool{}
	for s, ss := range ids {
		for f, fs := range ids {
			if s == f || len(ss) == 0 || len(ss) >= len(fs) {
				continue
			}
			sub := true
			for id := range ss {
				if !fs[id] {
					sub = false
					break
				}
			}
			if sub {
				for id := range ss {
					expected[id] = true
				}
			}
		}
	}
	if len(expected) != len(dups) {
		return false
	}
	for id := range dups {
		if !expected[id] {
			return false
		}
	}
	return len(dups) > 0
}

func describeFiles(f map[string][]byte) string {
	var names []string
	for n, b := range f {
		names = append(names, fmt.Sprintf("%s:%d", n, len(b)))
	}
	sort.Strings(names)
	return strings.Join(names, " ")
}

func c15Explore(h *c15history, subsets bool) CaseResult {
	var res CaseResult
	states := crashStates(h.log, subsets)
	seen := map[string]bool{}
	for _, st := range states {
		res.Transitions++
		// dedupe on content + acknowledged set
		hs := sha256.New()
		names := make([]string, 0, len(st.files))
		for n := range st.files {
			names = append(names, n)
		}
		sort.Strings(names)
		for _, n := range names {
			fmt.Fprintf(hs, "%s:%d:", n, len(st.files[n]))
			hs.Write(st.files[n])
		}
		var acks []string
		for a := range st.acked {
			acks = append(acks, a)
		}
		sort.Strings(acks)
		fmt.Fprint(hs, acks)
		k := fmt.Sprintf("%x", hs.Sum(nil)[:12])
		if seen[k] {
			continue
		}
		seen[k] = true
		res.States++
		res.Evals++
		res.Nontrivial++
		fs := c15Recover(st, h)
		for _, f := range fs {
			if len(res.Findings) < 12 {
				res.Findings = append(res.Findings, f)
			}
		}
	}
	nops := 0
	for _, o := range h.log {
		if o.Kind != "mark" {
			nops++
		}
	}
	res.Sample = map[string]any{"history": h.name, "fs_operations": nops, "crash_states": len(states), "distinct_states": res.States,
		"log_head": logHead(h.log, 14)}
	return res
}

func logHead(ops []vos.Op, n int) []string {
	var out []string
	for i, o := range ops {
		if i >= n {
			break
		}
		s := o.Kind + " " + filepath.Base(o.Path)
		if o.Kind == "rename" {
			s += " -> " + filepath.Base(o.To)
		}
		if o.Kind == "write" {
			s += fmt.Sprintf(" %dB", len(o.Data))
		}
		if o.Kind == "mark" {
			s = "mark " + o.Note
		}
		if o.Err {
			s += " (failed)"
		}
		out = append(out, s)
	}
	return out
}

func init() {
	modes["C15"] = ModeSpec{
		Cases: func(tier string) []Case {
			subsets := tier == "thorough"
			scripts := map[string][]string{
				"two-flushes":       {"ingest:B1", "flush", "ingest:B2", "flush"},
				"flush-merge-flush": {"ingest:B1", "flush", "ingest:B2", "flush", "merge", "ingest:B3", "flush"},
				"three-files-merge": {"ingest:B1", "flush", "ingest:B2", "flush", "ingest:B3", "flush", "merge"},
				"merge-of-merge":    {"ingest:B1", "flush", "ingest:B2", "flush", "merge", "ingest:B3", "flush", "merge"},
			}
			var cs []Case
			names := make([]string, 0)
			for n := range scripts {
				names = append(names, n)
			}
			sort.Strings(names)
			for _, n := range names {
				n := n
				cs = append(cs, Case{ID: "history/" + n, Run: func() CaseResult {
					h, err := c15RunHistory(n, scripts[n], 0)
					if err != nil {
						return CaseResult{Findings: []Finding{fnd("setup", "history %s: %v", n, err)}}
					}
					return c15Explore(h, subsets)
				}})
			}
			// abort paths: one failing filesystem call at every position
			for _, base := range []string{"two-flushes", "flush-merge-flush"} {
				base := base
				h0, err := c15RunHistory(base, scripts[base], 0)
				if err != nil {
					continue
				}
				muts := 0
				for _, o := range h0.log {
					switch o.Kind {
					case "create", "write", "fsync", "fsyncdir", "rename", "remove":
						muts++
					}
				}
				for k := 1; k <= muts; k++ {
					k := k
					if tier == "quick" && base == "flush-merge-flush" && k%2 == 0 {
						continue
					}
					cs = append(cs, Case{ID: fmt.Sprintf("history/%s/fault@%d", base, k), Run: func() CaseResult {
						name := fmt.Sprintf("%s with filesystem call %d failing", base, k)
						h, err := c15RunHistory(name, append(append([]string{}, scripts[base]...), "ingest:BX", "flush"), k)
						if err != nil {
							return CaseResult{Findings: []Finding{fnd("setup", "history %s: %v", name, err)}}
						}
						return c15Explore(h, false)
					}})
				}
			}
			// the context given to Merge ends just before every mutating filesystem call in turn
			for _, base := range []string{"flush-merge-flush", "three-files-merge"} {
				base := base
				if tier == "quick" && base != "flush-merge-flush" {
					continue
				}
				h0, err := c15RunHistory(base, scripts[base], 0)
				if err != nil {
					continue
				}
				muts := 0
				for _, o := range h0.log {
					switch o.Kind {
					case "create", "write", "fsync", "fsyncdir", "rename", "remove":
						muts++
					}
				}
				for k := 1; k <= muts; k++ {
					k := k
					cs = append(cs, Case{ID: fmt.Sprintf("history/%s/merge-ctx-ends@%d", base, k), Run: func() CaseResult {
						name := fmt.Sprintf("%s with Merge's context cancelled before filesystem call %d", base, k)
						h, err := c15RunHistory(name, append(append([]string{}, scripts[base]...), "ingest:BX", "flush"), 0, k)
						if err != nil {
							return CaseResult{Findings: []Finding{fnd("setup", "history %s: %v", name, err)}}
						}
						return c15Explore(h, false)
					}})
				}
			}
			return cs
		},
		Rule:        "histories over FileSystemDataStore as both stores (two flushes; flush/merge/flush; three-file merge; merge of a merge output; each of the first two re-run with one filesystem call failing at every position, i.e. every abort path; two re-run with the context given to Merge cancelled just before every filesystem call in turn) are logged at the os boundary; every prefix of the log (plus torn writes at 4 prefixes per write) yields a process-crash state and, under the stated durability model, power-loss states for every prefix (quick) or subset (thorough) of the not-yet-fsynced directory operations x {unsynced data absent, present}; every distinct state is materialised and recovered by a fresh engine; oracle: all listed files read completely, every row acknowledged before the crash point is returned, nothing foreign, nothing more often than ingested",
		Assumptions: []string{"durability model: file data durable up to the last fsync of that file; directory entries durable once the directory was fsynced after the operation; unsynced directory operations survive as a prefix (quick) or any subset (thorough) of their issue order; unsynced data is either absent or fully present"},
	}
}

// Command hsched runs the E1 scenario families of one property under the explorer.
// Parent mode enumerates (scenario, shard) work items and farms them out to worker
// processes (the controlled runtime is process-global); worker mode explores one item.
package main

import (
	"encoding/json"
	"flag"
	"fmt"
	"os"
	"os/exec"
	"runtime"
	"sort"
	"strconv"
	"strings"
	"sync"
	"time"

	"verif/explore"
	"verif/scen"
	"verif/vrt"
)

var (
	prop     = flag.String("prop", "", "property id")
	tier     = flag.String("tier", "quick", "quick|thorough")
	worker   = flag.String("worker", "", "worker mode: scenario name")
	shard    = flag.Int("shard", 0, "shard index")
	shards   = flag.Int("shards", 1, "shard count")
	out      = flag.String("out", "", "write merged result JSON here")
	replay   = flag.String("replay", "", "replay file")
	budgetS  = flag.Float64("budget", 0, "wall-clock budget in seconds for the whole run (0 = none)")
	jobs     = flag.Int("j", runtime.NumCPU(), "parallel workers")
	only     = flag.String("only", "", "substring filter on scenario names")
	listOnly = flag.Bool("list", false, "list scenarios")
	schedB   = flag.Int("sched", -1, "override deviation bound")
	faultB   = flag.Int("fault", -1, "override fault bound")
	trace    = flag.Bool("trace", false, "print step trace in replay mode")
	noPrune  = flag.Bool("noprune", false, "disable state-key pruning")
)

// ScenarioResult is what a worker prints.
type ScenarioResult struct {
	Scenario string          `json:"scenario"`
	Shard    int             `json:"shard"`
	Result   *explore.Result `json:"result"`
}

// Replay is the replay file format.
type Replay struct {
	Property string   `json:"property"`
	Scenario string   `json:"scenario"`
	Tier     string   `json:"tier"`
	Choices  []int    `json:"choices"`
	Outcome  string   `json:"outcome"`
	Detail   string   `json:"detail,omitempty"`
	Failures []string `json:"failures,omitempty"`
	Log      []string `json:"log,omitempty"`
	Bounds   explore.Bounds `json:"bounds"`
}

func find(name string) (scen.Scenario, bool) {
	fam := scen.Registry[*prop]
	if fam == nil {
		return scen.Scenario{}, false
	}
	for _, s := range fam(*tier) {
		if s.Name == name {
			return s, true
		}
	}
	return scen.Scenario{}, false
}

func cfgOf(s scen.Scenario) explore.Config {
	c := explore.Config{Name: s.Name, Root: s.Root, Horizon: s.Horizon, MaxSteps: s.MaxSteps,
		PoolPoints: s.PoolPoints, DelayBound: s.DelayBound, LazyTime: s.LazyTime, NoPrune: *noPrune,
		Bounds: explore.Bounds{Sched: s.Sched, Fault: s.Fault}}
	if *schedB >= 0 {
		c.Bounds.Sched = *schedB
	}
	if *faultB >= 0 {
		c.Bounds.Fault = *faultB
	}
	return c
}

func main() {
	flag.Parse()
	runtime.GOMAXPROCS(1)
	if *replay != "" {
		os.Exit(doReplay())
	}
	if *worker != "" {
		s, ok := find(*worker)
		if !ok {
			fmt.Fprintf(os.Stderr, "unknown scenario %q\n", *worker)
			os.Exit(2)
		}
		if s.Setup != nil {
			if x := vrt.Run(s.Setup, vrt.Options{Horizon: s.Horizon}); x.Outcome != vrt.OutcomeOK || len(x.Failures) > 0 {
				fmt.Fprintf(os.Stderr, "scenario setup failed: %s %s %v\n", x.Outcome, x.Detail, x.Failures)
				os.Exit(2)
			}
		}
		c := cfgOf(s)
		c.Shard, c.Shards = *shard, *shards
		if *budgetS > 0 {
			c.Deadline = time.Now().Add(time.Duration(*budgetS * float64(time.Second)))
		}
		r := explore.Explore(c)
		json.NewEncoder(os.Stdout).Encode(ScenarioResult{Scenario: s.Name, Shard: *shard, Result: r})
		return
	}
	fam := scen.Registry[*prop]
	if fam == nil {
		fmt.Fprintf(os.Stderr, "no scenario family for %q\n", *prop)
		os.Exit(2)
	}
	all := fam(*tier)
	var ss []scen.Scenario
	for _, s := range all {
		if *only == "" || strings.Contains(s.Name, *only) {
			ss = append(ss, s)
		}
	}
	if *listOnly {
		for _, s := range ss {
			fmt.Println(s.Name)
		}
		return
	}
	os.Exit(parent(ss))
}

type item struct {
	s     scen.Scenario
	shard int
}

func parent(ss []scen.Scenario) int {
	start := time.Now()
	nsh := 1
	if len(ss) < *jobs {
		nsh = (*jobs + len(ss) - 1) / len(ss)
	}
	var items []item
	for _, s := range ss {
		for k := 0; k < nsh; k++ {
			items = append(items, item{s, k})
		}
	}
	self, _ := os.Executable()
	results := map[string][]*explore.Result{}
	var mu sync.Mutex
	var wg sync.WaitGroup
	ch := make(chan item)
	var failures []string
	for w := 0; w < *jobs; w++ {
		wg.Add(1)
		go func() {
			defer wg.Done()
			for it := range ch {
				args := []string{"-prop", *prop, "-tier", *tier, "-worker", it.s.Name, "-shard", strconv.Itoa(it.shard), "-shards", strconv.Itoa(nsh)}
				if *budgetS > 0 {
					left := *budgetS - time.Since(start).Seconds()
					if left < 1 {
						left = 1
					}
					args = append(args, "-budget", fmt.Sprintf("%.1f", left))
				}
				if *schedB >= 0 {
					args = append(args, "-sched", strconv.Itoa(*schedB))
				}
				if *faultB >= 0 {
					args = append(args, "-fault", strconv.Itoa(*faultB))
				}
				if *noPrune {
					args = append(args, "-noprune")
				}
				cmd := exec.Command(self, args...)
				cmd.Stderr = os.Stderr
				outb, err := cmd.Output()
				var sr ScenarioResult
				if err == nil {
					err = json.Unmarshal(outb, &sr)
				}
				mu.Lock()
				if err != nil {
					failures = append(failures, fmt.Sprintf("%s shard %d: %v", it.s.Name, it.shard, err))
				} else {
					results[it.s.Name] = append(results[it.s.Name], sr.Result)
				}
				mu.Unlock()
			}
		}()
	}
	for _, it := range items {
		ch <- it
	}
	close(ch)
	wg.Wait()

	type summary struct {
		Property  string                     `json:"property"`
		Tier      string                     `json:"tier"`
		Scenarios map[string]*explore.Result `json:"scenarios"`
		Errors    []string                   `json:"errors,omitempty"`
		WallS     float64                    `json:"wall_s"`
	}
	sum := summary{Property: *prop, Tier: *tier, Scenarios: map[string]*explore.Result{}, Errors: failures}
	names := make([]string, 0, len(results))
	for n := range results {
		names = append(names, n)
	}
	sort.Strings(names)
	for _, n := range names {
		sum.Scenarios[n] = explore.Merge(results[n])
	}
	sum.WallS = time.Since(start).Seconds()
	if *out != "" {
		explore.WriteJSON(*out, sum)
	}
	var tex, tst int64
	nv := 0
	for _, n := range names {
		r := sum.Scenarios[n]
		tex += r.Executions
		tst += r.States
		nv += len(r.Violations)
		ex := ""
		if !r.Exhaustive {
			ex = " NOT-EXHAUSTIVE(" + r.CapHit + ")"
		}
		fmt.Printf("%-60s execs=%-8d states=%-8d pruned=%-7d depth=%-4d tasks=%-3d outcomes=%v digests=%d viol=%d%s\n",
			n, r.Executions, r.States, r.Pruned, r.MaxDepth, r.MaxTasks, r.Outcomes, r.LogDigests, len(r.Violations), ex)
	}
	fmt.Printf("TOTAL scenarios=%d executions=%d states=%d violations=%d errors=%d wall=%.1fs\n", len(names), tex, tst, nv, len(failures), sum.WallS)
	for _, f := range failures {
		fmt.Println("WORKER-ERROR:", f)
	}
	return 0
}

func doReplay() int {
	b, err := os.ReadFile(*replay)
	if err != nil {
		fmt.Fprintln(os.Stderr, err)
		return 2
	}
	var rp Replay
	if err := json.Unmarshal(b, &rp); err != nil {
		fmt.Fprintln(os.Stderr, err)
		return 2
	}
	*prop, *tier = rp.Property, rp.Tier
	s, ok := find(rp.Scenario)
	if !ok {
		fmt.Fprintf(os.Stderr, "unknown scenario %q\n", rp.Scenario)
		return 2
	}
	if s.Setup != nil {
		vrt.Run(s.Setup, vrt.Options{Horizon: s.Horizon})
	}
	c := cfgOf(s)
	var first *vrt.Execution
	for i := 0; i < 5; i++ {
		x := explore.RunOne(c, rp.Choices, *trace && i == 0)
		if first == nil {
			first = x
			continue
		}
		if strings.Join(x.Log, "\n") != strings.Join(first.Log, "\n") || x.Outcome != first.Outcome {
			fmt.Println("REPLAY-DIVERGENCE: observation logs differ between runs of the same choices")
			return 3
		}
	}
	for _, l := range first.TraceOut {
		fmt.Println(l)
	}
	fmt.Println("--- observation log")
	for _, l := range first.Log {
		fmt.Println(l)
	}
	fmt.Printf("--- outcome=%s %s\n", first.Outcome, first.Detail)
	for _, f := range first.Failures {
		fmt.Println("FAILURE:", f)
	}
	if first.Outcome != vrt.OutcomeOK || len(first.Failures) > 0 {
		fmt.Printf("VIOLATION property=%s replay=%s\n", rp.Property, *replay)
		return 1
	}
	fmt.Println("no violation on this tree")
	return 0
}

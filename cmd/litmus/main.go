// Command litmus runs the litmus programs of verif/scen on the real Go runtime many times
// and prints the set of outcomes per program as JSON (see tools/litmus.sh).
package main

import (
	"encoding/json"
	"os"
	"runtime"

	"verif/scen"
)

func main() {
	runtime.GOMAXPROCS(8)
	out := map[string]map[string]int{}
	for _, l := range scen.Litmus {
		out[l.Name] = map[string]int{}
		for i := 0; i < 3000; i++ {
			if i%2 == 1 {
				runtime.Gosched()
			}
			out[l.Name]["outcome "+l.Run()]++
		}
	}
	json.NewEncoder(os.Stdout).Encode(out)
}

//go:build verif

package bloomsearch

// Added to the package through the build overlay of /verif (never committed to the
// repository): lets the harness script the file-name draw of FileSystemDataStore so that
// reservation collisions can be forced (property C16).

// VerifSetFileNameDraw replaces the candidate-name draw used by CreateFile.
func (fs *FileSystemDataStore) VerifSetFileNameDraw(draw func() string) { fs.drawFileName = draw }

//go:build verif

package bloomsearch

// Added to the package through the build overlay of /verif (never committed to the
// repository): lets the harness script the file-name draw of FileSystemDataStore so that
// reservation collisions can be forced (property C16).

// VerifSetFileNameDraw replaces the candidate-name draw used by CreateFile.
func (fs *FileSystemDataStore) VerifSetFileNameDraw(draw func() string) { fs.drawFileName = draw }

// VerifFastTokens runs the zero-allocation word splitter and case folder that the engine
// uses in place of BasicWhitespaceLowerTokenizer (index building and row matching), so that
// the harness can compare it with the documented tokenizer over every rune.
func VerifFastTokens(text string) []string {
	out := []string{}
	var buf []byte
	forEachWord(text, func(word string) bool {
		buf = appendFoldedWord(buf[:0], word)
		out = append(out, string(buf))
		return true
	})
	return out
}

package vrt

import (
	"cmp"
	"sort"
)

// SortedKeys returns the keys of m in ascending order; the instrumenter routes every
// `range` over a map with an ordered key type through it so that iteration order is
// owned by the harness instead of the runtime's hash seed.
func SortedKeys[K cmp.Ordered, V any](m map[K]V) []K {
	ks := make([]K, 0, len(m))
	for k := range m {
		ks = append(ks, k)
	}
	sort.Slice(ks, func(i, j int) bool { return cmp.Less(ks[i], ks[j]) })
	return ks
}

// Package context is the scheduler-aware replacement of the standard context package.
// Cancellation closes a vrt channel; AfterFunc callbacks run in their own task, so an
// arbitrarily late callback is just a schedule. Cancellation of a context and of its
// vrt-typed descendants is one atomic step (stated modelling simplification).
package context

import (
	stdctx "context"
	"time"

	"verif/vrt"
)

var (
	Canceled         = stdctx.Canceled
	DeadlineExceeded = stdctx.DeadlineExceeded
)

type CancelFunc = func()
type CancelCauseFunc = func(cause error)

// Context mirrors context.Context with a scheduler-aware Done channel.
type Context interface {
	Deadline() (deadline time.Time, ok bool)
	Done() *vrt.Chan[struct{}]
	Err() error
	Value(key any) any
}

type emptyCtx struct{ name string }

func (emptyCtx) Deadline() (time.Time, bool) { return time.Time{}, false }
func (emptyCtx) Done() *vrt.Chan[struct{}]   { return nil }
func (emptyCtx) Err() error                  { return nil }
func (emptyCtx) Value(any) any               { return nil }

var background = emptyCtx{"Background"}
var todo = emptyCtx{"TODO"}

func Background() Context { return background }
func TODO() Context       { return todo }

type afterFunc struct {
	f       func()
	stopped bool
	started bool
}

type cancelCtx struct {
	parent   Context
	done     *vrt.Chan[struct{}]
	err      error
	cause    error
	children []*cancelCtx
	afters   []*afterFunc
	deadline time.Time
	hasDl    bool
	timer    *vrt.Timer
	o        vrt.Obj
}

func (c *cancelCtx) Deadline() (time.Time, bool) {
	if c.hasDl {
		return c.deadline, true
	}
	return c.parent.Deadline()
}
func (c *cancelCtx) Done() *vrt.Chan[struct{}] { return c.done }
func (c *cancelCtx) Err() error {
	if vrt.Active() {
		vrt.BlockOp("ctx.Err", func() bool { return true })
		if c.err != nil {
			vrt.Observe(1)
		} else {
			vrt.Observe(0)
		}
	}
	return c.err
}
func (c *cancelCtx) Value(key any) any {
	if key == &cancelCtxKey {
		return c
	}
	return c.parent.Value(key)
}

var cancelCtxKey int

// cancelNow cancels c and its descendants atomically (no yields inside).
func (c *cancelCtx) cancelNow(err, cause error) {
	if c.err != nil {
		return
	}
	c.err = err
	if cause == nil {
		cause = err
	}
	c.cause = cause
	c.o.Touch(0xca4ce1)
	vrt.CloseNoYield(c.done)
	if c.timer != nil {
		c.timer.Stop()
	}
	for _, ch := range c.children {
		ch.cancelNow(err, cause)
	}
	c.children = nil
	for _, a := range c.afters {
		if !a.stopped && !a.started {
			a.started = true
			f := a.f
			vrt.SpawnFromAnywhere("AfterFunc", f)
		}
	}
	c.afters = nil
}

func (c *cancelCtx) removeChild(ch *cancelCtx) {
	for i, x := range c.children {
		if x == ch {
			c.children = append(c.children[:i], c.children[i+1:]...)
			return
		}
	}
}

func parentCancelCtx(parent Context) *cancelCtx {
	p, _ := parent.Value(&cancelCtxKey).(*cancelCtx)
	if p == nil {
		return nil
	}
	// A custom wrapper that overrides Done must be watched instead.
	if parent.Done() != p.done {
		return nil
	}
	return p
}

func newCancelCtx(parent Context) *cancelCtx {
	if parent == nil {
		panic("cannot create context from nil parent")
	}
	c := &cancelCtx{parent: parent, done: vrt.MakeChan[struct{}]()}
	if p := parentCancelCtx(parent); p != nil {
		if p.err != nil {
			c.cancelNow(p.err, p.cause)
		} else {
			p.children = append(p.children, c)
		}
	} else if pd := parent.Done(); pd != nil {
		// Custom parent: watch it from a task, as the standard library does.
		vrt.GoNamed("ctx-propagate", func() {
			switch vrt.Select(false, vrt.RecvCase(pd), vrt.RecvCase(c.done)) {
			case 0:
				c.cancel(parent.Err(), nil)
			}
		})
	}
	return c
}

// cancel is the yielding entry point used by CancelFuncs.
func (c *cancelCtx) cancel(err, cause error) {
	if !vrt.Active() {
		return
	}
	vrt.BlockOp("ctx.cancel", func() bool { return true })
	if c.err != nil {
		vrt.Observe(1)
		return
	}
	if p := parentCancelCtx(c.parent); p != nil {
		p.removeChild(c)
	}
	c.cancelNow(err, cause)
}

func WithCancel(parent Context) (Context, CancelFunc) {
	c := newCancelCtx(parent)
	return c, func() { c.cancel(Canceled, nil) }
}

func WithCancelCause(parent Context) (Context, CancelCauseFunc) {
	c := newCancelCtx(parent)
	return c, func(cause error) { c.cancel(Canceled, cause) }
}

func Cause(c Context) error {
	if cc, ok := c.Value(&cancelCtxKey).(*cancelCtx); ok && cc != nil {
		return cc.cause
	}
	return c.Err()
}

func WithDeadline(parent Context, d time.Time) (Context, CancelFunc) {
	return WithTimeout(parent, d.Sub(vrtNow()))
}

func vrtNow() time.Time { return vrt.Epoch.Add(vrt.VNow()) }

func WithTimeout(parent Context, timeout time.Duration) (Context, CancelFunc) {
	c := newCancelCtx(parent)
	dl := vrtNow().Add(timeout)
	if cur, ok := parent.Deadline(); ok && cur.Before(dl) {
		return c, func() { c.cancel(Canceled, nil) }
	}
	c.deadline, c.hasDl = dl, true
	if timeout <= 0 {
		if c.err == nil {
			if p := parentCancelCtx(c.parent); p != nil {
				p.removeChild(c)
			}
			c.cancelNow(DeadlineExceeded, nil)
		}
		return c, func() {}
	}
	if c.err == nil {
		c.timer = vrt.AddTimer(timeout, func() {
			if c.err != nil {
				return
			}
			if p := parentCancelCtx(c.parent); p != nil {
				p.removeChild(c)
			}
			c.cancelNow(DeadlineExceeded, nil)
		})
	}
	return c, func() { c.cancel(Canceled, nil) }
}

type valueCtx struct {
	Context
	key, val any
}

func (v *valueCtx) Value(key any) any {
	if v.key == key {
		return v.val
	}
	return v.Context.Value(key)
}

func WithValue(parent Context, key, val any) Context { return &valueCtx{parent, key, val} }

type withoutCancel struct{ c Context }

func (withoutCancel) Deadline() (time.Time, bool) { return time.Time{}, false }
func (withoutCancel) Done() *vrt.Chan[struct{}]   { return nil }
func (withoutCancel) Err() error                  { return nil }
func (w withoutCancel) Value(key any) any {
	if key == &cancelCtxKey {
		return nil
	}
	return w.c.Value(key)
}

func WithoutCancel(parent Context) Context { return withoutCancel{parent} }

// AfterFunc arranges for f to run in its own task once ctx is done.
func AfterFunc(ctx Context, f func()) (stop func() bool) {
	a := &afterFunc{f: f}
	if p := parentCancelCtx(ctx); p != nil {
		if p.err != nil {
			a.started = true
			vrt.SpawnFromAnywhere("AfterFunc", f)
		} else {
			p.afters = append(p.afters, a)
		}
		return func() bool {
			if !vrt.Active() {
				return false
			}
			vrt.BlockOp("AfterFunc.stop", func() bool { return true })
			if a.started || a.stopped {
				vrt.Observe(0)
				return false
			}
			a.stopped = true
			p.o.Touch(0x5709)
			return true
		}
	}
	d := ctx.Done()
	if d == nil {
		return func() bool {
			if a.stopped {
				return false
			}
			a.stopped = true
			return true
		}
	}
	// Custom context: a watcher task waits for Done, exactly like the standard library.
	stopCh := vrt.MakeChan[struct{}]()
	var o vrt.Obj
	vrt.GoNamed("AfterFunc-watch", func() {
		switch vrt.Select(false, vrt.RecvCase(d), vrt.RecvCase(stopCh)) {
		case 0:
			if !a.stopped {
				a.started = true
				o.Touch(0x57a47)
				f()
			}
		}
	})
	return func() bool {
		if !vrt.Active() {
			return false
		}
		vrt.BlockOp("AfterFunc.stop", func() bool { return true })
		if a.started || a.stopped {
			vrt.Observe(0)
			return false
		}
		a.stopped = true
		o.Touch(0x5709)
		vrt.CloseNoYield(stopCh)
		return true
	}
}

// ToStd adapts a shim context for calls into packages that were not instrumented.
func ToStd(c Context) stdctx.Context { return stdAdapter{c} }

type stdAdapter struct{ c Context }

func (a stdAdapter) Deadline() (time.Time, bool) { return a.c.Deadline() }
func (a stdAdapter) Done() <-chan struct{}       { return nil }
func (a stdAdapter) Err() error                  { return nil }
func (a stdAdapter) Value(key any) any           { return a.c.Value(key) }

package vrt

import "fmt"

// chanCore is the untyped state of a channel.
type chanCore struct {
	Obj
	cap    int
	buf    []any
	closed bool
	label  string
}

type caseDesc struct {
	core *chanCore
	send bool
	val  any
	ok   bool
}

// Chan is the scheduler-aware replacement of `chan T`. A nil *Chan blocks forever.
type Chan[T any] struct{ core chanCore }

// MakeChan replaces make(chan T, n).
func MakeChan[T any](n ...int) *Chan[T] {
	c := &Chan[T]{}
	if len(n) > 0 {
		c.core.cap = n[0]
	}
	return c
}

func (c *Chan[T]) coreOf() *chanCore {
	if c == nil {
		return nil
	}
	return &c.core
}

// SetLabel names the channel in traces.
func (c *Chan[T]) SetLabel(l string) *Chan[T] { c.core.label = l; return c }

// Send replaces `c <- v`.
func (c *Chan[T]) Send(v T) {
	d := caseDesc{core: c.coreOf(), send: true, val: v}
	selectOp([]*caseDesc{&d}, false, "send")
}

// Recv replaces `<-c`.
func (c *Chan[T]) Recv() T {
	v, _ := c.Recv2()
	return v
}

// Recv2 replaces `v, ok := <-c`.
func (c *Chan[T]) Recv2() (T, bool) {
	d := caseDesc{core: c.coreOf()}
	selectOp([]*caseDesc{&d}, false, "recv")
	var z T
	if d.val != nil {
		z = d.val.(T)
	}
	return z, d.ok
}

// Close replaces close(c).
func (c *Chan[T]) Close() {
	s := S
	if s == nil || s.teardown {
		return
	}
	if c == nil {
		panic("close of nil channel")
	}
	s.yield(&pendingOp{kind: "close", enabled: alwaysEnabled})
	if c.core.closed {
		panic("close of closed channel")
	}
	c.core.closed = true
	c.core.touch(s, s.cur, 0xc105e)
}

// Len replaces len(c); Cap replaces cap(c).
func (c *Chan[T]) Len() int {
	if c == nil {
		return 0
	}
	Observe(uint64(len(c.core.buf)))
	return len(c.core.buf)
}
func (c *Chan[T]) Cap() int {
	if c == nil {
		return 0
	}
	return c.core.cap
}

// Sent reports how many values were ever sent (harness observation; not an operation).
func (c *Chan[T]) Buffered() int { return len(c.core.buf) }

// SelCase is one case of a rewritten select statement.
type SelCase interface {
	desc() *caseDesc
	fill()
}

// SendC is a send case.
type SendC[T any] struct{ d caseDesc }

func (x *SendC[T]) desc() *caseDesc { return &x.d }
func (x *SendC[T]) fill()           {}

// RecvC is a receive case; V and OK hold the result when the case was taken.
type RecvC[T any] struct {
	d  caseDesc
	V  T
	OK bool
}

func (x *RecvC[T]) desc() *caseDesc { return &x.d }
func (x *RecvC[T]) fill() {
	if x.d.val != nil {
		x.V = x.d.val.(T)
	}
	x.OK = x.d.ok
}

// SendCase builds the case `case c <- v:`.
func SendCase[T any](c *Chan[T], v T) *SendC[T] {
	return &SendC[T]{d: caseDesc{core: c.coreOf(), send: true, val: v}}
}

// RecvCase builds the case `case x := <-c:`.
func RecvCase[T any](c *Chan[T]) *RecvC[T] {
	return &RecvC[T]{d: caseDesc{core: c.coreOf()}}
}

// Select replaces a select statement; it returns the index of the case taken, or -1
// for the default clause.
func Select(hasDefault bool, cases ...SelCase) int {
	ds := make([]*caseDesc, len(cases))
	for i, c := range cases {
		ds[i] = c.desc()
	}
	idx := selectOp(ds, hasDefault, "select")
	if idx >= 0 {
		cases[idx].fill()
	}
	return idx
}

// partner finds the longest-parked task offering the complementary operation on core.
func (s *Sched) partner(core *chanCore, wantSend bool, me *task) (*task, int) {
	var best *task
	bi := -1
	for _, t := range s.tasks {
		if t == me || t.done || t.op == nil || t.op.completed || t.op.cases == nil {
			continue
		}
		for i, c := range t.op.cases {
			if c.core == core && c.send == wantSend {
				if best == nil || t.op.seq < best.op.seq {
					best, bi = t, i
				}
				break
			}
		}
	}
	return best, bi
}

func (s *Sched) caseReady(c *caseDesc, me *task) bool {
	core := c.core
	if core == nil {
		return false
	}
	if c.send {
		if core.closed || len(core.buf) < core.cap {
			return true
		}
		if core.cap == 0 {
			p, _ := s.partner(core, false, me)
			return p != nil
		}
		return false
	}
	if len(core.buf) > 0 || core.closed {
		return true
	}
	if core.cap == 0 {
		p, _ := s.partner(core, true, me)
		return p != nil
	}
	return false
}

func selectOp(cases []*caseDesc, hasDefault bool, kind string) int {
	s := S
	if s == nil {
		panic("vrt: channel operation outside an execution")
	}
	if s.teardown {
		return -1
	}
	me := s.cur
	op := &pendingOp{kind: kind, cases: cases, hasDef: hasDefault}
	if s.opts.Trace {
		op.kind = kind + describeCases(cases)
	}
	op.enabled = func() bool {
		if hasDefault {
			return true
		}
		for _, c := range cases {
			if s.caseReady(c, me) {
				return true
			}
		}
		return false
	}
	s.yield(op)
	if op.completed {
		// A partner performed the rendezvous; it already updated hashes.
		return op.chosen
	}
	var ready []int
	for i, c := range cases {
		if s.caseReady(c, me) {
			ready = append(ready, i)
		}
	}
	if len(ready) == 0 {
		if !hasDefault {
			panic("vrt: select scheduled with no ready case")
		}
		me.nops++
		me.h = mix(me.h, 0xdef)
		return -1
	}
	pick := 0
	if len(ready) > 1 {
		alts := make([]Alt, len(ready))
		for i := range ready {
			c := uint8(0)
			if i > 0 && !s.opts.SelectFree {
				c = 1
			}
			alts[i] = Alt{Class: ClassSched, Cost: c, Label: fmt.Sprintf("case%d", ready[i])}
		}
		pick = s.choose(ChoiceSelect, alts)
		if s.aborted {
			s.end()
			s.park(me)
		}
	}
	idx := ready[pick]
	c := cases[idx]
	core := c.core
	if c.send {
		if core.closed {
			panic("send on closed channel")
		}
		if len(core.buf) < core.cap {
			core.buf = append(core.buf, c.val)
			core.touch(s, me, 0x5e4d+uint64(idx)<<20)
			return idx
		}
		p, pi := s.partner(core, false, me)
		pc := p.op.cases[pi]
		pc.val, pc.ok = c.val, true
		p.op.completed, p.op.chosen = true, pi
		core.touch(s, me, 0x5e4d+uint64(idx)<<20)
		core.touch(s, p, 0x4ec5+uint64(pi)<<20)
		return idx
	}
	if len(core.buf) > 0 {
		c.val, c.ok = core.buf[0], true
		core.buf[0] = nil
		core.buf = core.buf[1:]
		core.touch(s, me, 0x4ec5+uint64(idx)<<20)
		return idx
	}
	if core.cap == 0 && !core.closed {
		p, pi := s.partner(core, true, me)
		pc := p.op.cases[pi]
		c.val, c.ok = pc.val, true
		p.op.completed, p.op.chosen = true, pi
		core.touch(s, p, 0x5e4d+uint64(pi)<<20)
		core.touch(s, me, 0x4ec5+uint64(idx)<<20)
		return idx
	}
	if core.cap == 0 {
		// closed, but a parked sender would have panicked; prefer closed semantics
	}
	c.val, c.ok = nil, false
	// Receiving from a closed channel is a read: many receivers commute.
	me.nops++
	me.h = mix(me.h, 0xc105ed, uint64(idx))
	return idx
}

func describeCases(cases []*caseDesc) string {
	out := "("
	for i, c := range cases {
		if i > 0 {
			out += ","
		}
		d := "<-"
		if c.send {
			d = "->"
		}
		l := "nil"
		if c.core != nil {
			l = c.core.label
			if l == "" {
				l = fmt.Sprintf("%p", c.core)
			}
		}
		out += d + l
	}
	return out + ")"
}

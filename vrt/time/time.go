// Package time is the virtual-clock replacement of the standard time package.
package time

import (
	stdtime "time"

	"verif/vrt"
)

type (
	Duration = stdtime.Duration
	Time     = stdtime.Time
	Month    = stdtime.Month
	Weekday  = stdtime.Weekday
	Location = stdtime.Location
)

const (
	Nanosecond  = stdtime.Nanosecond
	Microsecond = stdtime.Microsecond
	Millisecond = stdtime.Millisecond
	Second      = stdtime.Second
	Minute      = stdtime.Minute
	Hour        = stdtime.Hour

	RFC3339     = stdtime.RFC3339
	RFC3339Nano = stdtime.RFC3339Nano
)

var (
	UTC   = stdtime.UTC
	Local = stdtime.Local
)

func Unix(sec, nsec int64) Time                  { return stdtime.Unix(sec, nsec) }
func UnixMilli(ms int64) Time                    { return stdtime.UnixMilli(ms) }
func Date(y int, m Month, d, h, mi, s, ns int, l *Location) Time {
	return stdtime.Date(y, m, d, h, mi, s, ns, l)
}
func Parse(layout, v string) (Time, error)       { return stdtime.Parse(layout, v) }
func ParseDuration(s string) (Duration, error)   { return stdtime.ParseDuration(s) }

func Now() Time {
	if vrt.S == nil {
		return vrt.Epoch
	}
	return vrt.Epoch.Add(vrt.VNow())
}
func Since(t Time) Duration { return Now().Sub(t) }
func Until(t Time) Duration { return t.Sub(Now()) }

// Ticker mirrors time.Ticker on the virtual clock: capacity-1 channel, dropped ticks.
type Ticker struct {
	C *vrt.Chan[Time]
	t *vrt.Timer
	d Duration
}

func NewTicker(d Duration) *Ticker {
	if d <= 0 {
		panic("non-positive interval for NewTicker")
	}
	tk := &Ticker{C: vrt.MakeChan[Time](1), d: d}
	tk.C.SetLabel("ticker")
	tk.t = vrt.AddTimer(d, func() {
		vrt.TrySendFromClock(tk.C, Now())
		tk.t.Rearm(tk.d)
	})
	return tk
}

func (t *Ticker) Stop()            { t.t.Stop() }
func (t *Ticker) Reset(d Duration) { t.d = d; t.t.Reset(d) }

func Tick(d Duration) *vrt.Chan[Time] { return NewTicker(d).C }

type Timer struct {
	C *vrt.Chan[Time]
	t *vrt.Timer
}

func NewTimer(d Duration) *Timer {
	tm := &Timer{C: vrt.MakeChan[Time](1)}
	tm.C.SetLabel("timer")
	tm.t = vrt.AddTimer(d, func() { vrt.TrySendFromClock(tm.C, Now()) })
	return tm
}

func (t *Timer) Stop() bool            { return t.t.Stop() }
func (t *Timer) Reset(d Duration) bool { return t.t.Reset(d) }

func After(d Duration) *vrt.Chan[Time] { return NewTimer(d).C }

func AfterFunc(d Duration, f func()) *Timer {
	tm := &Timer{}
	tm.t = vrt.AddTimer(d, func() { vrt.SpawnFromAnywhere("time.AfterFunc", f) })
	return tm
}

func Sleep(d Duration) {
	if !vrt.Active() || d <= 0 {
		return
	}
	fired := false
	vrt.AddTimer(d, func() { fired = true })
	vrt.BlockOp("Sleep", func() bool { return fired })
}

// Package rand replaces math/rand/v2 with a per-execution script: values come from
// Script (when set) and otherwise from a counter, so executions are reproducible and
// collisions can be forced.
package rand

import "verif/vrt"

var (
	counter uint64
	// Script, when non-nil, supplies the successive values of Uint64 (and the other
	// draws derived from it); when exhausted the counter continues.
	Script []uint64
	pos    int
)

func init() { vrt.RegisterReset(func() { counter = 0; pos = 0 }) }

func next() uint64 {
	if pos < len(Script) {
		v := Script[pos]
		pos++
		return v
	}
	counter++
	return counter
}

func Uint64() uint64    { return next() }
func Uint32() uint32    { return uint32(next()) }
func Int64() int64      { return int64(next() >> 1) }
func Int() int          { return int(next() >> 1) }
func Int32() int32      { return int32(next() >> 33) }
func IntN(n int) int    { return int(next() % uint64(n)) }
func Int64N(n int64) int64 { return int64(next() % uint64(n)) }
func Uint64N(n uint64) uint64 { return next() % n }
func N[T ~int | ~int64 | ~uint64 | ~int32 | ~uint32](n T) T { return T(next() % uint64(n)) }
func Float64() float64  { return float64(next()%1000000) / 1000000 }
func Perm(n int) []int {
	p := make([]int, n)
	for i := range p {
		p[i] = i
	}
	return p
}
func Shuffle(n int, swap func(i, j int)) {}

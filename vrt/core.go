// Package vrt is the controlled runtime behind engine E1: every goroutine of the
// instrumented program is a task that runs only while it holds the single baton.
// Before each visible operation a task announces the operation and yields; the
// scheduler computes the enabled set from shim-object state and asks the Chooser
// which task continues. All nondeterminism (task choice, ready-select choice,
// environment answers, timer firing) goes through the Chooser, so an execution is
// a pure function of its choice sequence.
package vrt

import (
	"fmt"
	"runtime"
	"runtime/debug"
	"sort"
	"strings"
	"time"
)

// ChoiceKind classifies a recorded choice point.
type ChoiceKind uint8

const (
	ChoiceTask   ChoiceKind = iota // which enabled task runs next (last option may be "advance time")
	ChoiceSelect                   // which ready case a select takes
	ChoiceEnv                      // environment answer (fault / no fault, scripted value)
)

// Cost classes of an alternative.
const (
	ClassSched uint8 = iota // preemption, non-first select case, early timer
	ClassFault              // injected fault / environment deviation
)

// Alt describes one option of a choice point.
type Alt struct {
	Class uint8
	Cost  uint8
	Label string
}

// Point is one recorded choice point of an execution.
type Point struct {
	Kind  ChoiceKind
	Alts  []Alt
	Taken int
	Key   uint64 // trace-equivalence key of the state *before* the choice
	Step  int
}

// Chooser decides a choice point; it returns the index of the option to take.
type Chooser func(idx int, p *Point) int

// Outcome of an execution.
type Outcome uint8

const (
	OutcomeOK       Outcome = iota // main task returned
	OutcomeDeadlock                // main task unfinished, nothing enabled, no timer within horizon
	OutcomePanic                   // a task panicked
	OutcomeSteps                   // step cap exceeded (livelock guard)
	OutcomeInternal                // runtime misuse / replay divergence
	OutcomeAborted                 // the chooser cut the execution short (state already explored)
)

// AbortChoice, returned by a Chooser, ends the execution at once.
const AbortChoice = -1

func (o Outcome) String() string {
	return [...]string{"ok", "deadlock", "panic", "step-cap", "internal", "aborted"}[o]
}

// Options configure one execution.
type Options struct {
	Chooser    Chooser
	Horizon    time.Duration // timers later than this never fire
	MaxSteps   int           // scheduling steps before OutcomeSteps (0 = 200000)
	PoolPoints bool          // sync.Pool Get/Put are visible operations
	DelayBound bool          // every non-default task choice costs 1 (delay bounding)
	SelectFree bool          // non-first ready select cases cost 0
	Trace      bool          // record a human-readable step trace
	LazyTime   bool          // virtual time advances only when no task is enabled (no early timer deviations)
}

// Execution is the result of one run.
type Execution struct {
	Points   []Point
	Outcome  Outcome
	Detail   string // deadlock description, panic value + stack, ...
	Failures []string
	Log      []string // global observation log (vapi.Log)
	Steps    int
	Tasks    int
	TraceOut []string
	VNow     time.Duration
	FinalKey uint64
}

type task struct {
	idh   uint64 // stable identity hash (spawn path)
	name  string
	wake  chan struct{}
	op    *pendingOp
	done  bool
	h     uint64 // history hash (results of its operations)
	nops  uint64
	nsp   uint64 // children spawned
	nobj  uint64
	seq   int // index in s.tasks (creation order in this execution; not stable)
	start func()
}

type pendingOp struct {
	kind      string
	enabled   func() bool
	quiesce   bool
	cases     []*caseDesc // for channel operations
	hasDef    bool
	completed bool // a partner performed the rendezvous for us
	chosen    int
	seq       uint64 // announce order (FIFO among parked partners)
}

// Sched is the scheduler of the current execution.
type Sched struct {
	opts     Options
	tasks    []*task
	cur      *task
	main     *task
	teardown bool
	aborted  bool
	ended    bool
	endCh    chan struct{}
	exitCh   chan struct{}
	ex       *Execution
	key      uint64 // commutative sum over object history hashes
	steps    int
	opSeq    uint64
	vnow     time.Duration
	timers   []*vtimer
	timerSeq uint64
	clock    task // pseudo task attributing timer firings
	envHook  map[string]any
}

// S is the active scheduler (nil outside an execution).
var S *Sched

// Epoch is the wall-clock instant of virtual time zero.
var Epoch = time.Date(2024, 1, 1, 0, 0, 0, 0, time.UTC)

// resetters are run before every execution (package-level pools, maps, scripts).
var resetters []func()

// RegisterReset registers a function that restores package-level state.
func RegisterReset(f func()) { resetters = append(resetters, f) }

type killSentinel struct{}

const (
	fnvOff  = 14695981039346656037
	fnvMul  = 1099511628211
	mixMul2 = 0x9E3779B97F4A7C15
)

func mix(h uint64, vs ...uint64) uint64 {
	if h == 0 {
		h = fnvOff
	}
	for _, v := range vs {
		h ^= v
		h *= fnvMul
		h ^= h >> 29
	}
	return h
}

func hashStr(s string) uint64 {
	h := uint64(fnvOff)
	for i := 0; i < len(s); i++ {
		h ^= uint64(s[i])
		h *= fnvMul
	}
	return h
}

// fin spreads a hash so that commutative addition is collision resistant.
func fin(h uint64) uint64 {
	h ^= h >> 33
	h *= 0xff51afd7ed558ccd
	h ^= h >> 33
	h *= 0xc4ceb9fe1a85ec53
	h ^= h >> 33
	return h
}

// Obj is embedded in every shim object; h is the hash of its operation history.
type Obj struct{ h uint64 }

// touch records a mutating operation by the current task on o.
func (o *Obj) touch(s *Sched, t *task, code uint64) {
	t.nops++
	nh := mix(o.h, t.idh, t.nops, code)
	if o.h != 0 {
		s.key -= fin(o.h)
	}
	s.key += fin(nh)
	o.h = nh
	t.h = mix(t.h, code)
}

// Touch is touch for shim packages outside vrt.
func (o *Obj) Touch(code uint64) {
	s := S
	if s == nil || s.teardown {
		return
	}
	o.touch(s, s.cur, code)
}

// Observe mixes a read result into the current task's history.
func Observe(v uint64) {
	s := S
	if s == nil || s.teardown {
		return
	}
	s.cur.nops++
	s.cur.h = mix(s.cur.h, 0x0b5e, v)
}

// Run executes root as the main task under opts and returns the execution record.
func Run(root func(), opts Options) *Execution {
	if S != nil {
		panic("vrt: nested Run")
	}
	if opts.MaxSteps == 0 {
		opts.MaxSteps = 200000
	}
	for _, f := range resetters {
		f()
	}
	s := &Sched{opts: opts, endCh: make(chan struct{}), exitCh: make(chan struct{}, 1), ex: &Execution{}}
	s.clock.idh = hashStr("clock")
	S = s
	mt := s.newTask(nil, "main", root)
	s.main = mt
	s.cur = mt
	mt.wake <- struct{}{}
	<-s.endCh
	// Teardown: unwind every unfinished task, one at a time.
	s.teardown = true
	for i := 0; i < len(s.tasks); i++ { // tasks may not grow during teardown (Go is a no-op)
		t := s.tasks[i]
		if t.done {
			continue
		}
		t.wake <- struct{}{}
		<-s.exitCh
	}
	s.ex.Steps = s.steps
	s.ex.Tasks = len(s.tasks)
	s.ex.VNow = s.vnow
	s.ex.FinalKey = s.stateKey()
	S = nil
	return s.ex
}

func (s *Sched) newTask(parent *task, name string, f func()) *task {
	t := &task{name: name, wake: make(chan struct{}, 1), start: f, seq: len(s.tasks)}
	if parent == nil {
		t.idh = hashStr("main")
	} else {
		parent.nsp++
		t.idh = mix(parent.idh, 0x5157, parent.nsp)
		t.name = fmt.Sprintf("%s/%d:%s", shortName(parent.name), parent.nsp, name)
	}
	t.op = &pendingOp{kind: "start", enabled: alwaysEnabled}
	s.tasks = append(s.tasks, t)
	go s.taskBody(t)
	return t
}

func shortName(n string) string {
	if i := strings.LastIndex(n, ":"); i >= 0 {
		return n[:i]
	}
	return n
}

func alwaysEnabled() bool { return true }

func (s *Sched) taskBody(t *task) {
	<-t.wake
	defer func() {
		// Runs on normal return, on panic and on Goexit (teardown).
		if s.teardown {
			recover()
			t.done = true
			s.exitCh <- struct{}{}
			return
		}
		if r := recover(); r != nil {
			if _, ok := r.(killSentinel); !ok {
				s.setOutcome(OutcomePanic, fmt.Sprintf("panic in task %s: %v\n%s", t.name, r, debug.Stack()))
				t.done = true
				s.end()
				return
			}
		}
		t.done = true
		t.op = nil
		if t == s.main {
			s.end()
			return
		}
		// Hand the baton on.
		next := s.pick()
		if next == nil {
			s.end()
			return
		}
		s.cur = next
		next.wake <- struct{}{}
	}()
	if s.teardown {
		return
	}
	t.op = nil
	t.start()
}

// end terminates the execution; the caller's goroutine must stop touching shared state.
func (s *Sched) end() {
	if s.ended {
		return
	}
	s.ended = true
	close(s.endCh)
}

// park blocks the calling task until it is given the baton; during teardown it unwinds.
func (s *Sched) park(t *task) {
	<-t.wake
	if s.teardown {
		runtime.Goexit()
	}
}

// yield announces op for the current task and returns once the task is scheduled
// with op enabled. The caller then performs the operation atomically.
func (s *Sched) yield(op *pendingOp) {
	me := s.cur
	s.opSeq++
	op.seq = s.opSeq
	me.op = op
	next := s.pick()
	if next == nil {
		s.end()
		s.park(me) // never returns normally
	}
	if next != me {
		s.cur = next
		next.wake <- struct{}{}
		s.park(me)
	}
	me.op = nil
}

func (s *Sched) enabledTasks() []*task {
	var en, qs []*task
	for _, t := range s.tasks {
		if t.done || t.op == nil {
			continue
		}
		if t.op.quiesce {
			qs = append(qs, t)
			continue
		}
		if t.op.completed || t.op.enabled() {
			en = append(en, t)
		}
	}
	if len(en) == 0 {
		en = qs
	}
	// canonical order: current task first, then ascending stable id
	sort.Slice(en, func(i, j int) bool {
		if (en[i] == s.cur) != (en[j] == s.cur) {
			return en[i] == s.cur
		}
		return en[i].idh < en[j].idh
	})
	return en
}

// pick chooses the next task to run (nil: execution over).
func (s *Sched) pick() *task {
	for {
		s.steps++
		if s.steps > s.opts.MaxSteps {
			s.setOutcome(OutcomeSteps, fmt.Sprintf("step cap %d exceeded", s.opts.MaxSteps))
			return nil
		}
		en := s.enabledTasks()
		timeOpt := s.timerPending()
		if s.opts.LazyTime && len(en) > 0 {
			timeOpt = false
		}
		if len(en) == 0 {
			if timeOpt {
				s.advanceTime()
				continue
			}
			if !s.main.done {
				s.setOutcome(OutcomeDeadlock, s.describeBlocked())
			}
			return nil
		}
		n := len(en)
		if timeOpt {
			n++
		}
		if n == 1 {
			s.traceStep(en[0])
			return en[0]
		}
		curEnabled := en[0] == s.cur
		alts := make([]Alt, n)
		for i := range en {
			c := uint8(0)
			if i > 0 && (curEnabled || s.opts.DelayBound) {
				c = 1
			}
			alts[i] = Alt{Class: ClassSched, Cost: c, Label: en[i].name + ":" + en[i].op.kind}
		}
		if timeOpt {
			alts[n-1] = Alt{Class: ClassSched, Cost: 1, Label: "advance-time"}
		}
		idx := s.choose(ChoiceTask, alts)
		if s.aborted {
			return nil
		}
		if timeOpt && idx == n-1 {
			s.advanceTime()
			continue
		}
		s.traceStep(en[idx])
		return en[idx]
	}
}

// setOutcome records the first non-ok outcome of the execution.
func (s *Sched) setOutcome(o Outcome, detail string) {
	if s.ex.Outcome == OutcomeOK {
		s.ex.Outcome = o
		s.ex.Detail = detail
	}
}

func (s *Sched) traceStep(t *task) {
	if s.opts.Trace {
		k := "?"
		if t.op != nil {
			k = t.op.kind
		}
		s.ex.TraceOut = append(s.ex.TraceOut, fmt.Sprintf("%4d t=%v %s %s", s.steps, s.vnow, t.name, k))
	}
}

func (s *Sched) choose(kind ChoiceKind, alts []Alt) int {
	p := Point{Kind: kind, Alts: alts, Key: s.stateKey(), Step: s.steps}
	idx := 0
	if s.opts.Chooser != nil {
		idx = s.opts.Chooser(len(s.ex.Points), &p)
	}
	if idx == AbortChoice {
		s.setOutcome(OutcomeAborted, "")
		s.aborted = true
		p.Taken = 0
		s.ex.Points = append(s.ex.Points, p)
		return 0
	}
	if idx < 0 || idx >= len(alts) {
		s.setOutcome(OutcomeInternal, fmt.Sprintf("choice %d out of range (%d options) at point %d: replay divergence", idx, len(alts), len(s.ex.Points)))
		idx = 0
	}
	p.Taken = idx
	s.ex.Points = append(s.ex.Points, p)
	return idx
}

// stateKey hashes the trace-equivalence class of the current state.
func (s *Sched) stateKey() uint64 {
	k := s.key
	for _, t := range s.tasks {
		d := uint64(0)
		if t.done {
			d = 1
		}
		k += fin(mix(t.idh, t.nops, t.h, d))
	}
	cur := uint64(0)
	if s.cur != nil && !s.cur.done {
		cur = s.cur.idh
	}
	k += fin(mix(0xc0ffee, cur, uint64(s.vnow), s.clock.nops))
	return k
}

func (s *Sched) describeBlocked() string {
	var b strings.Builder
	b.WriteString("deadlock; blocked tasks:")
	for _, t := range s.tasks {
		if t.done {
			continue
		}
		k := "running"
		if t.op != nil {
			k = t.op.kind
		}
		fmt.Fprintf(&b, " [%s @ %s]", t.name, k)
	}
	return b.String()
}

// ---- public task API -------------------------------------------------------------

// Go spawns f as a new task.
func Go(f func()) {
	s := S
	if s == nil {
		panic("vrt.Go outside an execution")
	}
	if s.teardown {
		return
	}
	s.newTask(s.cur, callerName(), f)
}

// GoNamed spawns f as a new task with a readable name.
func GoNamed(name string, f func()) {
	s := S
	if s == nil {
		panic("vrt.Go outside an execution")
	}
	if s.teardown {
		return
	}
	s.newTask(s.cur, name, f)
}

func callerName() string {
	pc, _, line, ok := runtime.Caller(2)
	if !ok {
		return "go"
	}
	fn := runtime.FuncForPC(pc).Name()
	if i := strings.LastIndex(fn, "/"); i >= 0 {
		fn = fn[i+1:]
	}
	return fmt.Sprintf("%s#%d", fn, line)
}

// Yield is a pure scheduling point.
func Yield() {
	s := S
	if s == nil || s.teardown {
		return
	}
	s.yield(&pendingOp{kind: "yield", enabled: alwaysEnabled})
}

// Point is a named scheduling point (harness store calls etc.).
func PointOp(kind string) {
	s := S
	if s == nil || s.teardown {
		return
	}
	s.yield(&pendingOp{kind: kind, enabled: alwaysEnabled})
	// The point is an operation of the calling task like any other: executing it advances
	// the task's private history, so the state in which it is pending (after whatever the
	// harness did on the way in, e.g. a gauge increment) and the state at the task's next
	// point (after the matching decrement) do not share a state key. Without this the
	// explorer pruned the second as already explored (found with seeded change M13b).
	t := s.cur
	t.nops++
	t.h = mix(t.h, hashStr(kind))
}

// Quiesce blocks until no other task is enabled (timers do not fire first unless
// chosen as a deviation).
func Quiesce() {
	s := S
	if s == nil || s.teardown {
		return
	}
	s.yield(&pendingOp{kind: "quiesce", enabled: alwaysEnabled, quiesce: true})
}

// Choose is an environment choice with n options; option 0 is the default and every
// other option costs one unit of class.
func Choose(label string, n int, class uint8) int {
	s := S
	if s == nil || s.teardown || n <= 1 {
		return 0
	}
	alts := make([]Alt, n)
	for i := range alts {
		c := uint8(0)
		if i > 0 {
			c = 1
		}
		alts[i] = Alt{Class: class, Cost: c, Label: fmt.Sprintf("%s=%d", label, i)}
	}
	idx := s.choose(ChoiceEnv, alts)
	if s.aborted {
		s.end()
		s.park(s.cur)
	}
	s.cur.nops++
	s.cur.h = mix(s.cur.h, 0xe17, uint64(idx))
	return idx
}

var logObj Obj

// extObj stands for state outside the shim objects (the real filesystem): operations on it
// are totally ordered in the state key.
var extObj Obj

// PointExternal is a scheduling point followed by an operation on the external-state
// object; every logged filesystem call goes through it in the controlled build.
func PointExternal(kind string) {
	s := S
	if s == nil || s.teardown {
		return
	}
	s.yield(&pendingOp{kind: kind, enabled: alwaysEnabled})
	extObj.touch(s, s.cur, hashStr(kind))
}

// Log appends an event to the global observation log; it is an operation on the
// global log object, so logged events are mutually ordered in the state key.
func Log(ev string) {
	s := S
	if s == nil || s.teardown {
		return
	}
	s.ex.Log = append(s.ex.Log, ev)
	logObj.touch(s, s.cur, hashStr(ev))
}

// LogLen returns the current length of the observation log.
func LogLen() int {
	if S == nil {
		return 0
	}
	return len(S.ex.Log)
}

// LogSnapshot returns a copy of the observation log.
func LogSnapshot() []string {
	if S == nil {
		return nil
	}
	return append([]string(nil), S.ex.Log...)
}

// Fail records an oracle failure for this execution.
func Fail(msg string) {
	s := S
	if s == nil || s.teardown {
		return
	}
	s.ex.Failures = append(s.ex.Failures, msg)
}

// Active reports whether a controlled execution is running.
func Active() bool { return S != nil && !S.teardown }

// InTeardown reports whether tasks are being unwound.
func InTeardown() bool { return S != nil && S.teardown }

// VNow returns the virtual time offset.
func VNow() time.Duration {
	if S == nil {
		return 0
	}
	return S.vnow
}

// TaskName returns the current task's name.
func TaskName() string {
	if S == nil || S.cur == nil {
		return ""
	}
	return S.cur.name
}

// LiveTasks returns the names of unfinished tasks other than the caller.
func LiveTasks() []string {
	s := S
	if s == nil {
		return nil
	}
	var out []string
	for _, t := range s.tasks {
		if !t.done && t != s.cur {
			k := "running"
			if t.op != nil {
				k = t.op.kind
			}
			out = append(out, t.name+"@"+k)
		}
	}
	return out
}

func init() {
	RegisterReset(func() { logObj = Obj{}; extObj = Obj{} })
}

// Package sync is the scheduler-aware replacement of the standard sync package.
package sync

import (
	"unsafe"
	"reflect"
	"fmt"
	stdsync "sync"

	"verif/vrt"
)

type Locker = stdsync.Locker

// Mutex: Lock is a visible operation enabled while the mutex is free.
type Mutex struct {
	o      vrt.Obj
	locked bool
}

func (m *Mutex) Lock() {
	if !vrt.Active() {
		return
	}
	vrt.BlockOp("Lock", func() bool { return !m.locked })
	m.locked = true
	m.o.Touch(0x10c)
}

func (m *Mutex) TryLock() bool {
	if !vrt.Active() {
		return true
	}
	vrt.BlockOp("TryLock", func() bool { return true })
	if m.locked {
		vrt.Observe(0)
		return false
	}
	m.locked = true
	m.o.Touch(0x10c)
	return true
}

func (m *Mutex) Unlock() {
	if !vrt.Active() {
		return
	}
	if !m.locked {
		panic("sync: unlock of unlocked mutex")
	}
	m.locked = false
	m.o.Touch(0x0010c)
}

// RWMutex with Go's writer preference: a pending Lock blocks new RLock calls.
type RWMutex struct {
	o              vrt.Obj
	readers        int
	writer         bool
	writersWaiting int
}

func (m *RWMutex) RLock() {
	if !vrt.Active() {
		return
	}
	vrt.BlockOp("RLock", func() bool { return !m.writer && m.writersWaiting == 0 })
	m.readers++
	m.o.Touch(0x410c)
}

func (m *RWMutex) TryRLock() bool {
	if !vrt.Active() {
		return true
	}
	vrt.BlockOp("TryRLock", func() bool { return true })
	if m.writer || m.writersWaiting > 0 {
		vrt.Observe(0)
		return false
	}
	m.readers++
	m.o.Touch(0x410c)
	return true
}

func (m *RWMutex) RUnlock() {
	if !vrt.Active() {
		return
	}
	if m.readers <= 0 {
		panic("sync: RUnlock of unlocked RWMutex")
	}
	m.readers--
	m.o.Touch(0x0410c)
}

func (m *RWMutex) Lock() {
	if !vrt.Active() {
		return
	}
	// Step 1: announce (excludes other writers, blocks new readers).
	vrt.BlockOp("Lock-announce", func() bool { return true })
	m.writersWaiting++
	m.o.Touch(0xa10c)
	// Step 2: wait for active readers and writer to leave.
	vrt.BlockOp("Lock-acquire", func() bool { return m.readers == 0 && !m.writer })
	m.writersWaiting--
	m.writer = true
	m.o.Touch(0xb10c)
}

func (m *RWMutex) TryLock() bool {
	if !vrt.Active() {
		return true
	}
	vrt.BlockOp("TryLock", func() bool { return true })
	if m.writer || m.readers > 0 || m.writersWaiting > 0 {
		vrt.Observe(0)
		return false
	}
	m.writer = true
	m.o.Touch(0xb10c)
	return true
}

func (m *RWMutex) Unlock() {
	if !vrt.Active() {
		return
	}
	if !m.writer {
		panic("sync: Unlock of unlocked RWMutex")
	}
	m.writer = false
	m.o.Touch(0x0b10c)
}

func (m *RWMutex) RLocker() Locker { return (*rlocker)(m) }

type rlocker RWMutex

func (r *rlocker) Lock()   { (*RWMutex)(r).RLock() }
func (r *rlocker) Unlock() { (*RWMutex)(r).RUnlock() }

// WaitGroup: Add/Done update state without yielding; Wait blocks until zero.
type WaitGroup struct {
	o vrt.Obj
	n int
}

func (w *WaitGroup) Add(d int) {
	if !vrt.Active() {
		return
	}
	w.n += d
	if w.n < 0 {
		panic("sync: negative WaitGroup counter")
	}
	w.o.Touch(0xadd + uint64(int64(d))<<16)
}

func (w *WaitGroup) Done() { w.Add(-1) }

func (w *WaitGroup) Wait() {
	if !vrt.Active() {
		return
	}
	vrt.BlockOp("WaitGroup.Wait", func() bool { return w.n == 0 })
	vrt.Observe(0x3a17)
}

func (w *WaitGroup) Go(f func()) {
	w.Add(1)
	vrt.Go(func() {
		defer w.Done()
		f()
	})
}

// Once: concurrent callers block until the first call returns.
type Once struct {
	o       vrt.Obj
	done    bool
	running bool
}

func (o *Once) Do(f func()) {
	if !vrt.Active() {
		if vrt.InTeardown() {
			return
		}
		if !o.done {
			o.done = true
			f()
		}
		return
	}
	vrt.BlockOp("Once.Do", func() bool { return !o.running })
	if o.done {
		vrt.Observe(1)
		return
	}
	o.running = true
	o.o.Touch(0x0ce)
	defer func() {
		o.running = false
		o.done = true
		o.o.Touch(0x0ced)
	}()
	f()
}

func OnceFunc(f func()) func() {
	var once Once
	return func() { once.Do(f) }
}

func OnceValue[T any](f func() T) func() T {
	var once Once
	var v T
	return func() T { once.Do(func() { v = f() }); return v }
}

// Pool is a deterministic LIFO pool, reset before every execution.
type Pool struct {
	New   func() any
	o     vrt.Obj
	items []any
	reg   bool
	dup   bool // a double release was already reported in this execution
}

func (p *Pool) register() {
	if !p.reg {
		p.reg = true
		vrt.RegisterReset(func() { p.items = nil; p.o = vrt.Obj{}; p.dup = false })
	}
}

func (p *Pool) Get() any {
	p.register()
	if vrt.PoolPoints() {
		vrt.BlockOp("Pool.Get", func() bool { return true })
		p.o.Touch(0x9e7)
	}
	if n := len(p.items); n > 0 {
		x := p.items[n-1]
		p.items[n-1] = nil
		p.items = p.items[:n-1]
		return x
	}
	if p.New != nil {
		return p.New()
	}
	return nil
}

func (p *Pool) Put(x any) {
	if x == nil {
		return
	}
	p.register()
	if vrt.InTeardown() {
		return
	}
	if vrt.PoolPoints() {
		vrt.BlockOp("Pool.Put", func() bool { return true })
		p.o.Touch(0x9e8)
	}
	// an object that is already in the pool must not be put again: two later Gets would hand
	// the same memory to two users (checked for byte slices and pointers, by identity)
	if k := poolIdentity(x); k != 0 {
		for _, it := range p.items {
			if poolIdentity(it) == k && !p.dup {
				p.dup = true
				vrt.Fail(fmt.Sprintf("sync.Pool: a %T that is already in the pool was put again (released twice): two later Gets would share it", x))
				break
			}
		}
	}
	p.items = append(p.items, x)
}

func poolIdentity(x any) uintptr {
	switch v := x.(type) {
	case []byte:
		if cap(v) == 0 {
			return 0
		}
		return uintptr(unsafe.Pointer(unsafe.SliceData(v[:cap(v)])))
	case *[]byte:
		return uintptr(unsafe.Pointer(v))
	}
	rv := reflect.ValueOf(x)
	if rv.Kind() == reflect.Pointer && !rv.IsNil() {
		return rv.Pointer()
	}
	return 0
}

// Map is a plain map; every method is one atomic step (reads are observations).
type Map struct {
	o   vrt.Obj
	m   map[any]any
	reg bool
}

func (m *Map) init() {
	if m.m == nil {
		m.m = map[any]any{}
	}
	if !m.reg {
		m.reg = true
		vrt.RegisterReset(func() { m.m = nil; m.o = vrt.Obj{} })
	}
}

func (m *Map) Load(k any) (any, bool) {
	m.init()
	v, ok := m.m[k]
	return v, ok
}

func (m *Map) Store(k, v any) {
	m.init()
	m.m[k] = v
	m.o.Touch(0x5704e)
}

func (m *Map) LoadOrStore(k, v any) (any, bool) {
	m.init()
	if old, ok := m.m[k]; ok {
		return old, true
	}
	m.m[k] = v
	m.o.Touch(0x5704e)
	return v, false
}

func (m *Map) LoadAndDelete(k any) (any, bool) {
	m.init()
	v, ok := m.m[k]
	delete(m.m, k)
	m.o.Touch(0xde1)
	return v, ok
}

func (m *Map) Delete(k any) { m.LoadAndDelete(k) }

func (m *Map) Range(f func(k, v any) bool) {
	m.init()
	for k, v := range m.m {
		if !f(k, v) {
			return
		}
	}
}

// Cond is provided for completeness (Wait releases L and blocks until signalled).
type Cond struct {
	L       Locker
	o       vrt.Obj
	waiters []*condWaiter
}

type condWaiter struct{ woken bool }

func NewCond(l Locker) *Cond { return &Cond{L: l} }

func (c *Cond) Wait() {
	if !vrt.Active() {
		return
	}
	w := &condWaiter{}
	c.waiters = append(c.waiters, w)
	c.L.Unlock()
	vrt.BlockOp("Cond.Wait", func() bool { return w.woken })
	c.o.Touch(0xc04d)
	c.L.Lock()
}

func (c *Cond) Signal() {
	if !vrt.Active() {
		return
	}
	if len(c.waiters) > 0 {
		c.waiters[0].woken = true
		c.waiters = c.waiters[1:]
	}
	c.o.Touch(0x516)
}

func (c *Cond) Broadcast() {
	if !vrt.Active() {
		return
	}
	for _, w := range c.waiters {
		w.woken = true
	}
	c.waiters = nil
	c.o.Touch(0xb4d)
}

// Package atomic is the scheduler-aware replacement of sync/atomic: every access is a
// scheduling point; loads are observations, writes are operations on the object.
package atomic

import "verif/vrt"

func pt(kind string) { vrt.BlockOp(kind, func() bool { return true }) }

type Int64 struct {
	o vrt.Obj
	v int64
}

func (x *Int64) Load() int64 { pt("atomic.Load"); vrt.Observe(uint64(x.v)); return x.v }
func (x *Int64) Store(v int64) { pt("atomic.Store"); x.v = v; x.o.Touch(0x5704e ^ uint64(v)<<20) }
func (x *Int64) Add(d int64) int64 {
	pt("atomic.Add")
	x.v += d
	x.o.Touch(0xadd ^ uint64(d)<<20)
	return x.v
}
func (x *Int64) Swap(v int64) int64 {
	pt("atomic.Swap")
	old := x.v
	x.v = v
	x.o.Touch(0x5a9 ^ uint64(v)<<20)
	return old
}
func (x *Int64) CompareAndSwap(old, new int64) bool {
	pt("atomic.CAS")
	if x.v != old {
		vrt.Observe(uint64(x.v))
		return false
	}
	x.v = new
	x.o.Touch(0xca5 ^ uint64(new)<<20)
	return true
}

type Int32 struct {
	o vrt.Obj
	v int32
}

func (x *Int32) Load() int32 { pt("atomic.Load"); vrt.Observe(uint64(x.v)); return x.v }
func (x *Int32) Store(v int32) { pt("atomic.Store"); x.v = v; x.o.Touch(0x5704e ^ uint64(v)<<20) }
func (x *Int32) Add(d int32) int32 {
	pt("atomic.Add")
	x.v += d
	x.o.Touch(0xadd ^ uint64(d)<<20)
	return x.v
}
func (x *Int32) Swap(v int32) int32 {
	pt("atomic.Swap")
	old := x.v
	x.v = v
	x.o.Touch(0x5a9 ^ uint64(v)<<20)
	return old
}
func (x *Int32) CompareAndSwap(old, new int32) bool {
	pt("atomic.CAS")
	if x.v != old {
		vrt.Observe(uint64(x.v))
		return false
	}
	x.v = new
	x.o.Touch(0xca5 ^ uint64(new)<<20)
	return true
}

type Uint64 struct {
	o vrt.Obj
	v uint64
}

func (x *Uint64) Load() uint64 { pt("atomic.Load"); vrt.Observe(x.v); return x.v }
func (x *Uint64) Store(v uint64) { pt("atomic.Store"); x.v = v; x.o.Touch(0x5704e ^ v<<20) }
func (x *Uint64) Add(d uint64) uint64 {
	pt("atomic.Add")
	x.v += d
	x.o.Touch(0xadd ^ d<<20)
	return x.v
}
func (x *Uint64) Swap(v uint64) uint64 {
	pt("atomic.Swap")
	old := x.v
	x.v = v
	x.o.Touch(0x5a9 ^ v<<20)
	return old
}
func (x *Uint64) CompareAndSwap(old, new uint64) bool {
	pt("atomic.CAS")
	if x.v != old {
		vrt.Observe(x.v)
		return false
	}
	x.v = new
	x.o.Touch(0xca5 ^ new<<20)
	return true
}

type Uint32 struct {
	o vrt.Obj
	v uint32
}

func (x *Uint32) Load() uint32 { pt("atomic.Load"); vrt.Observe(uint64(x.v)); return x.v }
func (x *Uint32) Store(v uint32) { pt("atomic.Store"); x.v = v; x.o.Touch(0x5704e ^ uint64(v)<<20) }
func (x *Uint32) Add(d uint32) uint32 {
	pt("atomic.Add")
	x.v += d
	x.o.Touch(0xadd ^ uint64(d)<<20)
	return x.v
}
func (x *Uint32) CompareAndSwap(old, new uint32) bool {
	pt("atomic.CAS")
	if x.v != old {
		vrt.Observe(uint64(x.v))
		return false
	}
	x.v = new
	x.o.Touch(0xca5 ^ uint64(new)<<20)
	return true
}

type Bool struct {
	o vrt.Obj
	v bool
}

func b2u(b bool) uint64 {
	if b {
		return 1
	}
	return 0
}
func (x *Bool) Load() bool   { pt("atomic.Load"); vrt.Observe(b2u(x.v)); return x.v }
func (x *Bool) Store(v bool) { pt("atomic.Store"); x.v = v; x.o.Touch(0x5704e ^ b2u(v)<<20) }
func (x *Bool) Swap(v bool) bool {
	pt("atomic.Swap")
	old := x.v
	x.v = v
	x.o.Touch(0x5a9 ^ b2u(v)<<20)
	return old
}
func (x *Bool) CompareAndSwap(old, new bool) bool {
	pt("atomic.CAS")
	if x.v != old {
		vrt.Observe(b2u(x.v))
		return false
	}
	x.v = new
	x.o.Touch(0xca5 ^ b2u(new)<<20)
	return true
}

type Pointer[T any] struct {
	o vrt.Obj
	v *T
}

func (x *Pointer[T]) Load() *T { pt("atomic.Load"); vrt.Observe(b2u(x.v != nil)); return x.v }
func (x *Pointer[T]) Store(v *T) { pt("atomic.Store"); x.v = v; x.o.Touch(0x5704e) }
func (x *Pointer[T]) Swap(v *T) *T {
	pt("atomic.Swap")
	old := x.v
	x.v = v
	x.o.Touch(0x5a9)
	return old
}
func (x *Pointer[T]) CompareAndSwap(old, new *T) bool {
	pt("atomic.CAS")
	if x.v != old {
		vrt.Observe(0)
		return false
	}
	x.v = new
	x.o.Touch(0xca5)
	return true
}

type Value struct {
	o vrt.Obj
	v any
}

func (x *Value) Load() any { pt("atomic.Load"); vrt.Observe(b2u(x.v != nil)); return x.v }
func (x *Value) Store(v any) { pt("atomic.Store"); x.v = v; x.o.Touch(0x5704e) }

// Function forms operate on plain words; their object histories are keyed by address
// (reset before every execution).
var ptrObjs = map[any]*vrt.Obj{}

func init() { vrt.RegisterReset(func() { ptrObjs = map[any]*vrt.Obj{} }) }

func objOf(p any) *vrt.Obj {
	o := ptrObjs[p]
	if o == nil {
		o = &vrt.Obj{}
		ptrObjs[p] = o
	}
	return o
}

func AddInt64(p *int64, d int64) int64 {
	pt("atomic.Add")
	*p += d
	objOf(p).Touch(0xadd ^ uint64(d)<<20)
	return *p
}
func LoadInt64(p *int64) int64     { pt("atomic.Load"); vrt.Observe(uint64(*p)); return *p }
func StoreInt64(p *int64, v int64) { pt("atomic.Store"); *p = v; objOf(p).Touch(0x5704e ^ uint64(v)<<20) }
func AddInt32(p *int32, d int32) int32 {
	pt("atomic.Add")
	*p += d
	objOf(p).Touch(0xadd ^ uint64(d)<<20)
	return *p
}
func LoadInt32(p *int32) int32     { pt("atomic.Load"); vrt.Observe(uint64(*p)); return *p }
func StoreInt32(p *int32, v int32) { pt("atomic.Store"); *p = v; objOf(p).Touch(0x5704e ^ uint64(v)<<20) }
func CompareAndSwapInt64(p *int64, old, new int64) bool {
	pt("atomic.CAS")
	if *p != old {
		vrt.Observe(uint64(*p))
		return false
	}
	*p = new
	objOf(p).Touch(0xca5 ^ uint64(new)<<20)
	return true
}
func CompareAndSwapInt32(p *int32, old, new int32) bool {
	pt("atomic.CAS")
	if *p != old {
		vrt.Observe(uint64(*p))
		return false
	}
	*p = new
	objOf(p).Touch(0xca5 ^ uint64(new)<<20)
	return true
}

package vrt

import (
	"sort"
	"time"
)

// vtimer is a pending virtual-time event.
type vtimer struct {
	when   time.Duration
	seq    uint64
	fire   func() // runs in scheduler context (no yields); may re-arm
	active bool
	obj    Obj
}

// Timer is the handle shim packages keep.
type Timer struct{ t *vtimer }

// AddTimer schedules fire at virtual offset now+d. fire must not yield.
func AddTimer(d time.Duration, fire func()) *Timer {
	s := S
	if s == nil || s.teardown {
		return &Timer{}
	}
	if d < 0 {
		d = 0
	}
	s.timerSeq++
	t := &vtimer{when: s.vnow + d, seq: s.timerSeq, fire: fire, active: true}
	s.timers = append(s.timers, t)
	return &Timer{t: t}
}

// Stop deactivates the timer; it reports whether the timer was still pending.
func (h *Timer) Stop() bool {
	if h == nil || h.t == nil {
		return false
	}
	was := h.t.active
	h.t.active = false
	return was
}

// Reset re-arms the timer relative to the current virtual time.
func (h *Timer) Reset(d time.Duration) bool {
	s := S
	if s == nil || s.teardown || h.t == nil {
		return false
	}
	was := h.t.active
	h.t.active = false
	fire := h.t.fire
	s.timerSeq++
	nt := &vtimer{when: s.vnow + d, seq: s.timerSeq, fire: fire, active: true}
	s.timers = append(s.timers, nt)
	h.t = nt
	return was
}

// Rearm schedules the same callback again d after the previous deadline (tickers).
func (h *Timer) Rearm(d time.Duration) {
	s := S
	if s == nil || s.teardown || h.t == nil {
		return
	}
	fire := h.t.fire
	s.timerSeq++
	nt := &vtimer{when: h.t.when + d, seq: s.timerSeq, fire: fire, active: true}
	s.timers = append(s.timers, nt)
	h.t = nt
}

func (s *Sched) nextTimer() *vtimer {
	var best *vtimer
	j := 0
	for _, t := range s.timers {
		if !t.active {
			continue
		}
		s.timers[j] = t
		j++
		if best == nil || t.when < best.when || (t.when == best.when && t.seq < best.seq) {
			best = t
		}
	}
	for k := j; k < len(s.timers); k++ {
		s.timers[k] = nil
	}
	s.timers = s.timers[:j]
	return best
}

func (s *Sched) timerPending() bool {
	t := s.nextTimer()
	return t != nil && t.when <= s.opts.Horizon
}

// advanceTime moves virtual time to the earliest pending timer and fires every timer
// due at that instant, in creation order. Firing is attributed to the clock pseudo task.
func (s *Sched) advanceTime() {
	first := s.nextTimer()
	if first == nil {
		return
	}
	if first.when > s.vnow {
		s.vnow = first.when
	}
	var due []*vtimer
	for _, t := range s.timers {
		if t.active && t.when <= s.vnow {
			due = append(due, t)
		}
	}
	sort.Slice(due, func(i, j int) bool { return due[i].seq < due[j].seq })
	saved := s.cur
	s.cur = &s.clock
	for _, t := range due {
		if !t.active {
			continue
		}
		t.active = false
		s.clock.nops++
		if s.opts.Trace {
			s.ex.TraceOut = append(s.ex.TraceOut, "     clock fires timer at "+s.vnow.String())
		}
		t.fire()
	}
	s.cur = saved
}

// TrySendFromClock performs a non-blocking send on c attributed to the clock (ticker
// semantics: the tick is dropped when the buffer is full).
func TrySendFromClock[T any](c *Chan[T], v T) {
	s := S
	if s == nil || s.teardown {
		return
	}
	core := &c.core
	if len(core.buf) < core.cap {
		core.buf = append(core.buf, v)
		core.touch(s, &s.clock, 0x71c4)
	}
}

// CloseFromClock closes c from a timer callback (no yield).
func CloseFromClock[T any](c *Chan[T]) {
	s := S
	if s == nil || s.teardown || c.core.closed {
		return
	}
	c.core.closed = true
	c.core.touch(s, s.cur, 0xc105e)
}

// CloseNoYield closes c without a scheduling point (used inside atomic shim steps such
// as context cancellation, where the caller already yielded).
func CloseNoYield[T any](c *Chan[T]) {
	s := S
	if s == nil || s.teardown || c.core.closed {
		return
	}
	c.core.closed = true
	c.core.touch(s, s.cur, 0xc105e)
}

// IsClosed reports whether c was closed (harness observation).
func IsClosed[T any](c *Chan[T]) bool { return c != nil && c.core.closed }

// BlockOp yields with a custom enabledness predicate; shim packages build their
// blocking operations (Lock, Wait, ...) on it.
func BlockOp(kind string, enabled func() bool) {
	s := S
	if s == nil || s.teardown {
		return
	}
	s.yield(&pendingOp{kind: kind, enabled: enabled})
}

// SpawnFromAnywhere spawns a task from a timer callback or task context.
func SpawnFromAnywhere(name string, f func()) {
	s := S
	if s == nil || s.teardown {
		return
	}
	parent := s.cur
	s.newTask(parent, name, f)
}

// PoolPoints reports whether sync.Pool operations are visible operations.
func PoolPoints() bool { return S != nil && !S.teardown && S.opts.PoolPoints }

package scen

import (
	"context"
	"fmt"
	"sort"
	"strings"
	"sync"
	"sync/atomic"
	"time"

	"verif/vapi"
)

// Litmus programs: small concurrent programs whose complete outcome set under the
// controlled scheduler is compared with what the same source does on the real runtime
// (tools/litmus.sh): every outcome the real runtime produces must be one the explorer
// found, and deterministic programs must have exactly one outcome in both.

type LitmusProg struct {
	Name string
	Run  func() string
}

func sortedJoin(xs []string) string { sort.Strings(xs); return strings.Join(xs, ",") }

var Litmus = []LitmusProg{
	{"unbuffered-rendezvous", func() string {
		ch := make(chan int)
		go func() { ch <- 1 }()
		go func() { ch <- 2 }()
		a, b := <-ch, <-ch
		return fmt.Sprint(a, b)
	}},
	{"buffered-fifo", func() string {
		ch := make(chan int, 2)
		ch <- 1
		ch <- 2
		return fmt.Sprint(<-ch, <-ch)
	}},
	{"select-two-ready", func() string {
		a, b := make(chan int, 1), make(chan int, 1)
		a <- 1
		b <- 2
		select {
		case v := <-a:
			return fmt.Sprint("a", v)
		case v := <-b:
			return fmt.Sprint("b", v)
		}
	}},
	{"select-default", func() string {
		a := make(chan int)
		select {
		case v := <-a:
			return fmt.Sprint(v)
		default:
			return "default"
		}
	}},
	{"closed-receive", func() string {
		a := make(chan int, 1)
		a <- 7
		close(a)
		v1, ok1 := <-a
		v2, ok2 := <-a
		return fmt.Sprint(v1, ok1, v2, ok2)
	}},
	{"nil-channel-in-select", func() string {
		var n chan int
		b := make(chan int, 1)
		b <- 3
		select {
		case <-n:
			return "nil"
		case v := <-b:
			return fmt.Sprint(v)
		}
	}},
	{"mutex-counter", func() string {
		var mu sync.Mutex
		var wg sync.WaitGroup
		n := 0
		for i := 0; i < 3; i++ {
			wg.Add(1)
			go func() { defer wg.Done(); mu.Lock(); n++; mu.Unlock() }()
		}
		wg.Wait()
		return fmt.Sprint(n)
	}},
	{"atomic-load-store-race", func() string {
		var x atomic.Int64
		var wg sync.WaitGroup
		for i := 0; i < 2; i++ {
			wg.Add(1)
			go func() { defer wg.Done(); v := x.Load(); x.Store(v + 1) }()
		}
		wg.Wait()
		return fmt.Sprint(x.Load())
	}},
	{"once", func() string {
		var once sync.Once
		var wg sync.WaitGroup
		var n atomic.Int64
		for i := 0; i < 3; i++ {
			wg.Add(1)
			go func() { defer wg.Done(); once.Do(func() { n.Add(1) }) }()
		}
		wg.Wait()
		return fmt.Sprint(n.Load())
	}},
	{"rwmutex-writer-preference", func() string {
		var mu sync.RWMutex
		order := make(chan string, 2)
		mu.RLock()
		wa := make(chan struct{})
		go func() { close(wa); mu.Lock(); order <- "w"; mu.Unlock() }()
		<-wa
		vapi.Quiesce() // the writer is now waiting behind our read lock
		go func() { mu.RLock(); order <- "r"; mu.RUnlock() }()
		vapi.Quiesce()
		mu.RUnlock()
		return <-order + <-order
	}},
	{"context-cancel-propagates", func() string {
		p, cancel := context.WithCancel(context.Background())
		c, cancel2 := context.WithCancel(p)
		defer cancel2()
		cancel()
		<-c.Done()
		return fmt.Sprint(c.Err())
	}},
	{"context-afterfunc", func() string {
		ctx, cancel := context.WithCancel(context.Background())
		done := make(chan string, 1)
		stop := context.AfterFunc(ctx, func() { done <- "ran" })
		cancel()
		r := <-done
		return fmt.Sprint(r, stop())
	}},
	{"context-afterfunc-stop-race", func() string {
		ctx, cancel := context.WithCancel(context.Background())
		var ran atomic.Int64
		stop := context.AfterFunc(ctx, func() { ran.Add(1) })
		go cancel()
		stopped := stop()
		vapi.Quiesce()
		// exactly one of: the callback ran (or will have run), or stop prevented it
		return fmt.Sprint(stopped != (ran.Load() == 1))
	}},
	{"timeout-vs-send", func() string {
		ctx, cancel := context.WithTimeout(context.Background(), 20*time.Millisecond)
		defer cancel()
		ch := make(chan int)
		go func() {
			time.Sleep(20 * time.Millisecond)
			select {
			case ch <- 1:
			case <-ctx.Done():
			}
		}()
		select {
		case <-ch:
			return "got"
		case <-ctx.Done():
			return "timeout"
		}
	}},
	{"ticker-drops-ticks", func() string {
		t := time.NewTicker(10 * time.Millisecond)
		defer t.Stop()
		time.Sleep(35 * time.Millisecond)
		n := 0
		for {
			select {
			case <-t.C:
				n++
				continue
			default:
			}
			break
		}
		return fmt.Sprint(n) // capacity 1: at most one pending tick
	}},
	{"waitgroup-reuse", func() string {
		var wg sync.WaitGroup
		out := []string{}
		var mu sync.Mutex
		for round := 0; round < 2; round++ {
			for i := 0; i < 2; i++ {
				wg.Add(1)
				go func(r, i int) { defer wg.Done(); mu.Lock(); out = append(out, fmt.Sprint(r)); mu.Unlock() }(round, i)
			}
			wg.Wait()
		}
		return strings.Join(out, "")
	}},
	{"map-range-delete", func() string {
		m := map[string]int{"a": 1, "b": 2, "c": 3}
		var seen []string
		for k := range m {
			seen = append(seen, k)
			delete(m, "b")
			delete(m, "c")
			delete(m, "a")
		}
		return fmt.Sprint(len(seen))
	}},
}

func init() {
	Registry["LITMUS"] = func(tier string) []Scenario {
		var out []Scenario
		for _, l := range Litmus {
			l := l
			out = append(out, Scenario{Prop: "LITMUS", Name: l.Name, Root: func() { vapi.Log("outcome %s", l.Run()) }, Horizon: time.Second, Sched: 3})
		}
		return out
	}
}

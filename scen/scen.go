// Package scen holds the E1 scenarios: small closed drivers around the real engine,
// written in plain Go (goroutines, channels, select). The controlled build runs this
// package through the instrumenter; the plain build runs the same bodies free-running
// under -race as the auxiliary data-race pass.
package scen

import (
	"errors"
	"fmt"
	"sort"
	"strings"
	"time"

	bs "github.com/danthegoodman1/bloomsearch"

	"verif/hstore"
	"verif/vapi"
)

// Scenario is one closed system to explore.
type Scenario struct {
	Prop       string
	Name       string
	Root       func()
	Setup      func() // run once per worker process (default schedule) before exploring
	Horizon    time.Duration
	PoolPoints bool
	Sched      int // deviation bound (preemptions, select alternatives, early timers)
	Fault      int // fault bound
	DelayBound bool
	LazyTime   bool // time advances only at quiescence (scheduling latency is not modelled)
	MaxSteps   int
	// Known maps a failure signature to the known-finding id it belongs to (set by the
	// scenario when a failure is a catalogued finding on the unchanged tree).
}

// Registry maps a property id to its scenario family for a tier ("quick"/"thorough").
var Registry = map[string]func(tier string) []Scenario{}

var ErrInjected = errors.New("injected store fault")

// baseConfig is the engine configuration shared by the scheduling scenarios: no
// compression (fewest steps), generous limits that individual scenarios tighten.
func baseConfig() bs.BloomSearchEngineConfig {
	c := bs.DefaultBloomSearchEngineConfig()
	c.RowDataCompression = bs.CompressionNone
	c.MaxBufferedTime = 10 * time.Second
	c.BloomFalsePositiveRate = 0.01
	return c
}

// loggingHook logs every store call entry/exit into the global observation log, makes
// entry a scheduling point and (optionally) a fault point.
// faultHook injects faults only: no logging, no extra scheduling points (the stores'
// own mutexes are already visible operations).
func faultHook(store string) *hstore.Hook {
	return &hstore.Hook{
		Enter: func(op, ptr string, n int) error {
			if faultable(op) && vapi.Fault(store+"."+op) {
				return fmt.Errorf("%w at %s.%s", ErrInjected, store, op)
			}
			return nil
		},
	}
}

func loggingHook(store string, faults bool, gate func(op, ptr string)) *hstore.Hook {
	return &hstore.Hook{
		Enter: func(op, ptr string, n int) error {
			vapi.Point(store + "." + op)
			vapi.Log("enter %s.%s %s", store, op, ptr)
			if gate != nil {
				gate(op, ptr)
			}
			if faults && faultable(op) && vapi.Fault(store+"."+op) {
				vapi.Log("fault %s.%s %s", store, op, ptr)
				return fmt.Errorf("%w at %s.%s", ErrInjected, store, op)
			}
			return nil
		},
		Exit: func(op, ptr string, err error) {
			if err != nil {
				vapi.Log("exit %s.%s %s err", store, op, ptr)
			} else {
				vapi.Log("exit %s.%s %s ok", store, op, ptr)
			}
		},
	}
}

func faultable(op string) bool {
	switch op {
	case "HandleClose", "Iter":
		return false
	}
	return true
}

func row(k, v string) map[string]any { return map[string]any{k: v} }

func countLog(log []string, prefix string) int {
	n := 0
	for _, l := range log {
		if strings.HasPrefix(l, prefix) {
			n++
		}
	}
	return n
}

func indexLog(log []string, s string) int {
	for i, l := range log {
		if l == s {
			return i
		}
	}
	return -1
}

// queryAll drains a match-all query and returns the sorted JSON-ish rendering of rows.
func queryAll(eng *bs.BloomSearchEngine) ([]string, error) {
	return queryRows(eng, nil)
}

func queryRows(eng *bs.BloomSearchEngine, q *bs.Query) ([]string, error) {
	res, err := eng.Query(ctxBackground(), q)
	if err != nil {
		return nil, err
	}
	var out []string
	for res.Next() {
		out = append(out, renderRow(res.Row()))
	}
	sort.Strings(out)
	return out, res.Err()
}

func renderRow(r map[string]any) string {
	ks := make([]string, 0, len(r))
	for k := range r {
		ks = append(ks, k)
	}
	sort.Strings(ks)
	var b strings.Builder
	for _, k := range ks {
		fmt.Fprintf(&b, "%s=%v;", k, r[k])
	}
	return b.String()
}

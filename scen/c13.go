package scen

import (
	"context"
	"errors"
	"fmt"
	"sort"
	"sync"
	"time"

	bs "github.com/danthegoodman1/bloomsearch"

	"verif/hstore"
	"verif/vapi"
)

// C13 (concurrent part) — Merge is single flight: overlapping Merge calls on one engine
// either commit once or return ErrMergeInProgress; the visible content stays exactly the
// stored multiset whatever the interleaving.

type c13p struct {
	store  string // posix (tombstone deletes) | deferred (tombstone marks, bytes stay readable) | object
	merges int
	meta   string // shipped | harness
}

func (p c13p) name() string { return fmt.Sprintf("%s-%s-merges%d", p.store, p.meta, p.merges) }

func c13Root(p c13p) func() {
	return func() {
		data := hstore.NewMemData()
		data.ObjectLike = p.store == "object"
		data.DeferredGC = p.store == "deferred"
		var metaStore bs.MetaStore
		hm := hstore.NewMemMeta()
		mm := bs.NewMemoryMetaStore()
		var writes []bs.WriteOperation
		for i := range fixtures["c14"] {
			f := fixtures["c14"][i]
			ptr := data.Put(f.data)
			md := f.md
			writes = append(writes, bs.WriteOperation{FileMetadata: &md, FilePointerBytes: []byte(ptr)})
		}
		if p.meta == "shipped" {
			mm.Update(context.Background(), writes, nil)
			metaStore = mm
		} else {
			hm.Update(context.Background(), writes, nil)
			metaStore = hm
		}
		cfg := baseConfig()
		cfg.PartitionFunc = func(r map[string]any) string { s, _ := r["p"].(string); return s }
		cfg.MaxFilesToMergePerOperation = 4
		eng, err := bs.NewBloomSearchEngine(cfg, metaStore, data)
		if err != nil {
			vapi.Fail("config: %v", err)
			return
		}
		ctx := context.Background()
		var wg sync.WaitGroup
		errs := make([]error, p.merges)
		for i := 0; i < p.merges; i++ {
			wg.Add(1)
			go func(i int) {
				defer wg.Done()
				vapi.Log("call Merge%d", i)
				_, err := eng.Merge(ctx)
				errs[i] = err
				vapi.Log("ret Merge%d %v", i, err)
			}(i)
		}
		wg.Wait()
		committed := 0
		for i, err := range errs {
			switch {
			case err == nil:
				committed++
			case errors.Is(err, bs.ErrMergeInProgress):
			default:
				vapi.Fail("C13: Merge%d on healthy stores, concurrent with another Merge, returned %v (want nil or ErrMergeInProgress)", i, err)
			}
		}
		if committed == 0 {
			vapi.Fail("C13: %d overlapping Merge calls all returned ErrMergeInProgress: none of them held the merge", p.merges)
		}
		rows, qerr := queryAll(eng)
		if qerr != nil {
			vapi.Fail("C13: query after the merges failed: %v", qerr)
		}
		want := []string{"a0", "a1", "b0", "c0", "c1"}
		var got []string
		res, err := eng.Query(ctx, nil)
		if err == nil {
			for res.Next() {
				got = append(got, fmt.Sprint(res.Row()["id"]))
			}
		}
		sort.Strings(got)
		if fmt.Sprint(got) != fmt.Sprint(want) {
			vapi.Fail("C13: after %d overlapping Merge calls (errors %v) the visible rows are %v, stored %v (%d rendered rows)", p.merges, errs, got, want, len(rows))
		}
	}
}

func init() {
	Registry["C13"] = func(tier string) []Scenario {
		ps := []c13p{{"posix", 2, "shipped"}, {"deferred", 2, "harness"}}
		if tier == "thorough" {
			ps = append(ps, c13p{"object", 2, "shipped"}, c13p{"deferred", 2, "shipped"}, c13p{"posix", 3, "harness"}, c13p{"deferred", 3, "shipped"})
		}
		setup := c14FixtureSetup
		var out []Scenario
		for _, p := range ps {
			s := Scenario{Prop: "C13", Name: p.name(), Root: c13Root(p), Setup: setup, Horizon: time.Second, Sched: 1}
			if tier == "thorough" && p.merges == 2 {
				s.Sched = 2
			}
			out = append(out, s)
		}
		return out
	}
}

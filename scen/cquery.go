package scen

import (
	"context"
	"encoding/json"
	"errors"
	"fmt"
	"strings"
	"sync"
	"time"

	bs "github.com/danthegoodman1/bloomsearch"

	"verif/hstore"
	"verif/refmodel"
	"verif/vapi"
)

// C20 / C21 / C22 — the Results cursor, its resources and the query I/O budget.

type fixtureFile struct {
	ptr  string
	data []byte
	md   bs.FileMetadata
}

// fixtureCompression selects the row data compression a fixture is written with.
var fixtureCompression = map[string]bs.CompressionType{}

// fixtures are built once per worker process by a Setup execution and are immutable.
var fixtures = map[string][]fixtureFile{}

// buildFixture writes the given batches (one file each) with an engine over harness
// stores and records the resulting files.
func buildFixture(name string, batches [][]map[string]any) func() {
	return func() {
		if fixtures[name] != nil {
			return
		}
		data, meta := hstore.NewMemData(), hstore.NewMemMeta()
		cfg := baseConfig()
		cfg.PartitionFunc = func(r map[string]any) string { s, _ := r["p"].(string); return s }
		if c, ok := fixtureCompression[name]; ok {
			cfg.RowDataCompression = c
		}
		eng, err := bs.NewBloomSearchEngine(cfg, meta, data)
		if err != nil {
			vapi.Fail("fixture config: %v", err)
			return
		}
		eng.Start()
		ctx := context.Background()
		for _, b := range batches {
			done := make(chan error, 1)
			if err := eng.IngestRows(ctx, b, done); err != nil {
				vapi.Fail("fixture ingest: %v", err)
				return
			}
			if err := eng.Flush(ctx); err != nil {
				vapi.Fail("fixture flush: %v", err)
				return
			}
			if err := <-done; err != nil {
				vapi.Fail("fixture ack: %v", err)
				return
			}
		}
		eng.Stop(ctx)
		var out []fixtureFile
		for _, p := range meta.Pointers() {
			b, _ := data.Bytes(p)
			md, _ := meta.Metadata(p)
			out = append(out, fixtureFile{p, append([]byte(nil), b...), md})
		}
		fixtures[name] = out
		// row id -> block key (pointer@offset), from an independent parse of the files
		idx := map[string]string{}
		for _, f := range out {
			if pf, err := refmodel.ParseFile(f.data); err == nil {
				for _, blk := range pf.Blocks {
					for _, rb := range blk.Rows {
						var m map[string]any
						if json.Unmarshal(rb, &m) == nil {
							idx[fmt.Sprint(m["id"])] = fmt.Sprintf("%s@%d", f.ptr, blk.Meta.RowDataOffset)
						}
					}
				}
			}
		}
		fixtureBlockOf[name] = idx
	}
}

// fixtureBlockOf maps, per fixture, a row id to the block that stores it.
var fixtureBlockOf = map[string]map[string]string{}

func loadFixture(name string) (*hstore.MemData, *hstore.MemMeta) {
	data, meta := hstore.NewMemData(), hstore.NewMemMeta()
	for _, f := range fixtures[name] {
		hstore.Preload(data, meta, f.ptr, f.data, f.md)
	}
	return data, meta
}

func hitRows(prefix, part string, n int) []map[string]any {
	var rows []map[string]any
	for i := 0; i < n; i++ {
		rows = append(rows, map[string]any{"id": fmt.Sprintf("%s%d", prefix, i), "p": part, "k": "hit"})
	}
	return rows
}

type cqp struct {
	fixture  string
	conc     int    // MaxQueryConcurrency
	takes    int    // rows the consumer takes before it only polls for the end (-1: all)
	closer   int    // number of Close calls by a concurrent task
	cancel   bool   // a task cancels the caller context
	faults   bool   // OpenFile / Read / iterator may fail (at most Fault bound)
	engine   string // fresh | started | stopped
	prop     string
	ctxReads bool // the DataStore's handles abort reads once the context OpenFile got has ended
	parClose bool // the closer's Close calls are made by separate tasks, concurrently
}

func (p cqp) name() string {
	n := fmt.Sprintf("%s-c%d-take%d-close%d-cancel_%v-faults_%v-%s", p.fixture, p.conc, p.takes, p.closer, p.cancel, p.faults, p.engine)
	if p.ctxReads {
		n += "-ctxreads"
	}
	if p.parClose {
		n += "-parclose"
	}
	return n
}

var (
	errOpen = errors.New("sentinel: OpenFile failed")
	errRead = errors.New("sentinel: Read failed")
	errIter = errors.New("sentinel: iterator failed")
	// a store-made failure of the context class (a per-page deadline of the MetaStore's own):
	// the query's context is live, so it is a failure to report like any other
	errIterCtx = fmt.Errorf("sentinel: iterator page fetch: %w", context.DeadlineExceeded)
)

func cqRoot(p cqp) func() {
	return func() {
		data, meta := loadFixture(p.fixture)
		data.CtxAwareReads = p.ctxReads
		var fired []error
		inRead := 0
		maxInRead := 0
		if p.faults || p.prop == "C22" {
			data.Hook = &hstore.Hook{
				Enter: func(op, ptr string, n int) error {
					switch op {
					case "OpenFile":
						if p.faults && vapi.Fault("OpenFile") {
							fired = append(fired, errOpen)
							return errOpen
						}
					case "Read":
						if p.faults && vapi.Fault("Read") {
							fired = append(fired, errRead)
							return errRead
						}
						if p.prop == "C22" {
							inRead++
							if inRead > maxInRead {
								maxInRead = inRead
							}
							if inRead > p.conc {
								vapi.Fail("C22: %d DataStore reads in progress at once, MaxQueryConcurrency=%d", inRead, p.conc)
							}
							vapi.Point("read-in-progress")
						}
					}
					return nil
				},
				Exit: func(op, ptr string, err error) {
					if op == "Read" && p.prop == "C22" && !errors.Is(err, errRead) {
						inRead--
					}
				},
			}
			if p.faults {
				meta.IterErr = func(i int) error {
					if vapi.Fault("Iter") {
						if p.engine == "fresh+iterctx" {
							fired = append(fired, errIterCtx)
							return errIterCtx
						}
						fired = append(fired, errIter)
						return errIter
					}
					return nil
				}
			}
		}
		cfg := baseConfig()
		cfg.MaxQueryConcurrency = p.conc
		eng, err := bs.NewBloomSearchEngine(cfg, meta, data)
		if err != nil {
			vapi.Fail("config: %v", err)
			return
		}
		switch p.engine {
		case "started":
			eng.Start()
		case "stopped":
			eng.Start()
			eng.Stop(context.Background())
		}
		ctx, cancel := context.WithCancel(context.Background())
		defer cancel()
		res, err := eng.Query(ctx, bs.NewQuery().Token("hit").Build())
		if err != nil {
			vapi.Fail("Query: %v", err)
			return
		}
		var wg sync.WaitGroup
		var errAfterT vapi.Cell[error] // Err() observed right after the first terminal-deciding call returned
		var tSet vapi.Counter
		harness := map[string]bool{"main": true}
		terminal := func(who string) {
			if tSet.Add(1) == 1 {
				errAfterT.Set(res.Err())
				vapi.Log("T %s", who)
				if p.prop == "C21" {
					c21AtTerminal(who, data, meta)
				}
			}
		}
		rows := 0
		var gotIDs []string
		wg.Add(1)
		go func() {
			defer wg.Done()
			for {
				if p.takes >= 0 && rows >= p.takes {
					// a consumer that stopped taking rows: wait until somebody else ends the query
					if p.closer > 0 || p.cancel {
						vapi.Quiesce()
					}
				}
				vapi.Log("call Next")
				ok := res.Next()
				if !ok {
					vapi.Log("ret Next false")
					terminal("Next")
					break
				}
				vapi.Log("ret Next true")
				rows++
				if p.prop == "C23" {
					gotIDs = append(gotIDs, fmt.Sprint(res.Row()["id"]))
				}
				if res.Row() == nil {
					vapi.Fail("C20: Next returned true but Row() is nil")
				}
			}
			for i := 0; i < 2; i++ {
				if res.Next() {
					vapi.Fail("C20: Next returned true after it had returned false")
				}
				if res.Row() != nil {
					vapi.Fail("C20: Row() is non-nil after Next returned false")
				}
			}
		}()
		closerTasks, perTask := 1, p.closer
		if p.parClose {
			closerTasks, perTask = p.closer, 1
		}
		for ct := 0; ct < closerTasks && p.closer > 0; ct++ {
			wg.Add(1)
			go func() {
				defer wg.Done()
				if p.fixture == "manyfiles" || p.fixture == "long" {
					vapi.Quiesce() // terminate a query whose pipeline is saturated behind the stalled consumer
				}
				for i := 0; i < perTask; i++ {
					vapi.Log("call Close")
					if err := res.Close(); err != nil {
						vapi.Fail("C20: Close returned %v", err)
					}
					vapi.Log("ret Close")
					terminal("Close")
				}
			}()
		}
		if p.cancel {
			wg.Add(1)
			go func() {
				defer wg.Done()
				if p.fixture == "manyfiles" || p.fixture == "long" {
					vapi.Quiesce()
				}
				// was the query's pipeline still running when the cancellation arrived? (its
				// goroutines carry the package name; a started engine's ingest / flush workers do not count)
				live := 0
				for _, t := range vapi.LiveTasks() {
					if strings.Contains(t, "bloomsearch.") && !strings.Contains(t, "startWorkers") && !strings.Contains(t, "Start") && !strings.Contains(t, "Stop") {
						live++
					}
				}
				vapi.Log("cancel live=%d", live)
				vapi.Log("cancel begin")
				cancel()
				vapi.Log("cancel done")
			}()
		}
		wg.Wait()
		_ = harness
		final := res.Err()
		if err := res.Close(); err != nil {
			vapi.Fail("C20: Close after completion returned %v", err)
		}
		if e2 := res.Err(); !sameErr(final, e2) {
			vapi.Fail("C20: Err changed from %v to %v by a Close after the terminal state", final, e2)
		}
		if p.prop == "C21" || p.prop == "C19" {
			// the full concurrency budget is available again: a follow-up query whose first
			// MaxQueryConcurrency reads wait for each other must complete
			arrived, opened := 0, false
			open := make(chan struct{})
			data.Hook = &hstore.Hook{Enter: func(op, ptr string, n int) error {
				if op == "Read" && !opened && p.conc > 1 {
					arrived++
					if arrived == p.conc {
						opened = true
						close(open)
					} else {
						<-open
					}
				}
				return nil
			}}
			meta.IterErr = nil
			res2, err := eng.Query(context.Background(), bs.NewQuery().Token("hit").Build())
			if err != nil {
				vapi.Fail("C21: follow-up Query: %v", err)
				return
			}
			n := 0
			for res2.Next() {
				n++
			}
			if res2.Err() != nil || n != fixtureRows(p.fixture) {
				vapi.Fail("C21: follow-up query returned %d rows (want %d), err %v", n, fixtureRows(p.fixture), res2.Err())
			}
		}
		if p.prop == "C23" {
			// Next has returned false: the statistics are final, whatever ended the query
			st := res.Stats()
			listed := map[string]int{}
			processed := map[string]bool{}
			perFile := map[string]int{}
			for _, b := range st.BlockStats {
				k := fmt.Sprintf("%s@%d", b.FilePointer, b.BlockOffset)
				listed[k]++
				perFile[string(b.FilePointer)]++
				if listed[k] > 1 {
					vapi.Fail("C23: block %s listed %d times in BlockStats", k, listed[k])
				}
				if b.BloomFilterSkipped {
					if b.RowsProcessed != 0 || b.BytesProcessed != 0 {
						vapi.Fail("C23: skipped block %s reports rows=%d bytes=%d", k, b.RowsProcessed, b.BytesProcessed)
					}
				} else {
					processed[k] = true
				}
			}
			for _, id := range gotIDs {
				if k := fixtureBlockOf[p.fixture][id]; k != "" && !processed[k] {
					vapi.Fail("C23: row %s was returned but its block %s is not listed as processed in BlockStats (listed %d times; %d entries in all)", id, k, listed[k], len(st.BlockStats))
					break
				}
			}
			// all-or-none per file: only for queries that ran to their end (a query ended by Close
			// or cancellation never reaches some blocks: they are not "evaluated blocks", and the
			// code documents cancellation as "not a block outcome"; not asserted there)
			for _, f := range fixtures[p.fixture] {
				if p.closer > 0 || p.cancel {
					break
				}
				if n := perFile[f.ptr]; n != 0 && n != len(f.md.DataBlocks) {
					vapi.Fail("C23: file %s lists %d of its %d blocks (all or none)", f.ptr, n, len(f.md.DataBlocks))
				}
			}
			return
		}
		if p.prop != "C20" {
			return
		}
		log := vapi.LogSnapshot()
		ti := logIndexPrefix(log, "T ")
		who := strings.TrimPrefix(log[ti], "T ")
		// the call event of T: the last "call Next"/"call Close" of that kind before T
		tcall := -1
		for i := ti; i >= 0; i-- {
			if log[i] == "call "+who {
				tcall = i
				break
			}
		}
		cb, cd := logIndex(log, "cancel begin"), logIndex(log, "cancel done")
		pipelineLiveAtCancel := logIndexPrefix(log, "cancel live=") >= 0 && log[logIndexPrefix(log, "cancel live=")] != "cancel live=0"
		// the call event of the Next call that returned false (len(log) when there is none)
		finalNextCall := len(log)
		for i := range log {
			if log[i] == "ret Next false" {
				for j := i; j >= 0; j-- {
					if log[j] == "call Next" {
						finalNextCall = j
						break
					}
				}
				break
			}
		}
		atT, _ := errAfterT.Get()
		cancelled := p.cancel
		switch {
		case cancelled && cd >= 0 && cd < tcall && (cd < finalNextCall || pipelineLiveAtCancel):
			// (exempt: the query's pipeline had already wound down by itself and a Next call was
			// in progress when the context was cancelled — that call may have observed the natural
			// end of the query, with whatever failures it recorded, before the cancellation, so the
			// terminal state was decided first, whichever call returns first)
			if !errors.Is(final, context.Canceled) {
				vapi.Fail("C20: the caller context was cancelled before the terminal %s call began, but Err()=%v does not wrap context.Canceled", who, final)
			}
		case cancelled && cb > ti:
			if !sameErr(atT, final) {
				vapi.Fail("C20: cancellation after the terminal state changed Err from %v to %v", atT, final)
			}
		}
		if !cancelled || cb > ti {
			e := atT
			if who == "Next" && logIndex(log, "call Close") < 0 || who == "Next" && logIndex(log, "call Close") > ti {
				// completed naturally: nil iff nothing failed; every fired sentinel reported
				if len(fired) == 0 && e != nil {
					vapi.Fail("C20: the query completed without any failure or cancellation but Err()=%v", e)
				}
				for _, s := range fired {
					if !errors.Is(e, s) {
						vapi.Fail("C20: failure %v happened but Err()=%v does not report it", s, e)
					}
				}
			} else {
				// closed early, not cancelled: nil or recorded failures only, never a context error
				if errors.Is(e, context.Canceled) || errors.Is(e, context.DeadlineExceeded) {
					vapi.Fail("C20: the query was closed (not cancelled) but Err()=%v is a context error", e)
				}
			}
		}
		if len(fired) == 0 && !cancelled && p.closer == 0 {
			if want := fixtureRows(p.fixture); rows != want {
				vapi.Fail("C20: clean completion delivered %d rows, the fixture holds %d matching rows", rows, want)
			}
		}
	}
}

// fixtureHits is the number of rows matching Token("hit") per fixture.
var fixtureHits = map[string]int{}

func fixtureRows(name string) int { return fixtureHits[name] }

func sameErr(a, b error) bool {
	if a == nil || b == nil {
		return a == nil && b == nil
	}
	return a.Error() == b.Error()
}

// c21AtTerminal: the instant the terminal Next or Close returned.
func c21AtTerminal(who string, data *hstore.MemData, meta *hstore.MemMeta) {
	for _, h := range data.Handles {
		if h.Closed != 1 {
			vapi.Fail("C21: when %s returned, a handle on %s had been closed %d times (want exactly once)", who, h.Ptr, h.Closed)
		}
		if h.ConcurrentUse {
			vapi.Fail("C21: a handle on %s was used by two goroutines at once", h.Ptr)
		}
		if h.UseAfterClose {
			vapi.Fail("C21: a handle on %s was used after it had been closed", h.Ptr)
		}
	}
	if meta.IterStarted != meta.IterReturned {
		vapi.Fail("C21: when %s returned, the MetaStore iterator had not returned (started %d, returned %d)", who, meta.IterStarted, meta.IterReturned)
	}
	for _, t := range vapi.LiveTasks() {
		// engine goroutines carry the package name; the ingest/flush workers of a started
		// engine are not the query's
		if !strings.Contains(t, "bloomsearch.") || strings.Contains(t, "startWorkers") || strings.Contains(t, "Start") || strings.Contains(t, "Stop") {
			continue
		}
		vapi.Fail("C21: when %s returned, a goroutine started for the query was still running: %s", who, t)
	}
}

func init() {
	small := [][]map[string]any{
		append(hitRows("a", "x", 2), hitRows("b", "y", 3)...),
		append(hitRows("c", "x", 1), map[string]any{"id": "miss", "p": "y", "k": "other"}),
	}
	big := [][]map[string]any{
		append(hitRows("a", "x", 66), hitRows("b", "y", 2)...),
		hitRows("c", "x", 2),
	}
	// 30 one-block files with one matching row each: more surviving files than the query
	// pipeline can absorb (4 row batches + 16 block jobs + 4 file jobs + 2 x concurrency)
	var manyfiles [][]map[string]any
	for i := 0; i < 30; i++ {
		manyfiles = append(manyfiles, hitRows(fmt.Sprintf("f%d_", i), "x", 1))
	}
	setups := map[string]func(){"small": buildFixture("small", small), "big": buildFixture("big", big), "manyfiles": buildFixture("manyfiles", manyfiles)}
	for name, bs := range map[string][][]map[string]any{"small": small, "big": big, "manyfiles": manyfiles} {
		for _, b := range bs {
			for _, r := range b {
				if r["k"] == "hit" {
					fixtureHits[name]++
				}
			}
		}
	}
	family := func(prop string) func(tier string) []Scenario {
		return func(tier string) []Scenario {
			var ps []cqp
			if tier == "quick" {
				ps = []cqp{
					{"small", 2, -1, 0, false, false, "fresh", prop, false, false},
					{"small", 2, 1, 1, false, false, "fresh", prop, false, false},
					{"small", 1, 0, 0, true, false, "stopped", prop, false, false},
					{"small", 2, -1, 1, true, false, "fresh", prop, false, false},
					{"small", 2, -1, 0, false, true, "started", prop, false, false},
					{"small", 1, -1, 0, false, true, "fresh", prop, false, false},
					// queries work the same on a stopped engine: every row, and failures are reported
					{"small", 2, -1, 0, false, false, "stopped", prop, false, false},
					{"small", 1, -1, 0, false, true, "stopped", prop, false, false},
					// the MetaStore's iterator fails with a deadline error of its own making
					{"small", 1, -1, 0, false, true, "fresh+iterctx", prop, false, false},
					{"big", 2, 65, 2, false, false, "fresh", prop, false, false},
					// preemption-bounded (not delay-bounded, see below): a Next in progress while the
					// context is cancelled and the pipeline winds down (finding F12)
					{"small", 1, 1, 1, true, false, "fresh", prop, false, false},
					// two Close calls from two tasks at once
					{fixture: "small", conc: 2, takes: 1, closer: 2, engine: "fresh", prop: prop, parClose: true},
					// reads that fail because the query was terminated (context-aware store)
					{"small", 2, 1, 1, false, false, "fresh", prop, true, false},
					{"small", 1, 0, 0, true, false, "started", prop, true, false},
					// a stalled consumer behind a saturated pipeline, ended by Close / by cancellation
					{"manyfiles", 1, 0, 1, false, false, "fresh", prop, false, false},
					{"manyfiles", 1, 0, 0, true, false, "fresh", prop, false, false},
				}
			} else {
				ps = append(ps, cqp{fixture: "small", conc: 2, takes: 1, closer: 2, engine: "fresh", prop: prop, parClose: true}, cqp{fixture: "small", conc: 1, takes: 0, closer: 3, engine: "started", prop: prop, parClose: true},
					cqp{fixture: "big", conc: 2, takes: 65, closer: 2, engine: "fresh", prop: prop, parClose: true, cancel: true})
				ps = append(ps, cqp{"manyfiles", 1, 0, 1, false, false, "fresh", prop, false, false}, cqp{"manyfiles", 1, 0, 0, true, false, "fresh", prop, false, false},
					cqp{"manyfiles", 2, 1, 2, false, false, "started", prop, false, false}, cqp{"manyfiles", 1, 0, 1, true, false, "fresh", prop, true, false})
				for _, fx := range []string{"small", "big"} {
					for _, conc := range []int{1, 2} {
						for _, takes := range []int{-1, 0, 1, 65} {
							if takes == 65 && fx != "big" {
								continue
							}
							for _, closer := range []int{0, 1, 2} {
								for _, cancel := range []bool{false, true} {
									for _, faults := range []bool{false, true} {
										if takes >= 0 && closer == 0 && !cancel {
											continue // nobody would end the query
										}
										if fx == "big" && (faults || (closer > 0 && cancel)) {
											continue
										}
										ps = append(ps, cqp{fx, conc, takes, closer, cancel, faults, []string{"fresh", "started", "stopped"}[(conc+closer+takes+3)%3], prop, false, false})
										if !faults && (closer > 0 || cancel) {
											ps = append(ps, cqp{fx, conc, takes, closer, cancel, false, "fresh", prop, true, false})
										}
									}
								}
							}
						}
					}
				}
			}
			var out []Scenario
			for _, p := range ps {
				// quick: delay bounding (every departure from the canonical task order costs 1,
				// blocking points included) with bound 2; thorough: preemption bounding
				s := Scenario{Prop: prop, Name: p.name(), Root: cqRoot(p), Setup: setups[p.fixture], Horizon: time.Second, Sched: 2, DelayBound: true}
				if p.faults {
					s.Fault = 1
				}
				if p.fixture == "manyfiles" {
					s.Sched = 1
				}
				if tier == "quick" && p.fixture == "small" && p.conc == 1 && p.takes == 1 && p.closer == 1 && p.cancel && !p.ctxReads {
					s.DelayBound, s.Sched = false, 1
				}
				if tier == "quick" && prop == "C21" && p.faults && p.conc > 1 {
					// the follow-up query makes C21 executions twice as long: one delay with two
					// workers, two delays with one worker (next scenario)
					s.Sched = 1
				}
				if tier == "thorough" {
					s.DelayBound = false
					s.Sched = 1
					if p.fixture == "big" {
						s.DelayBound, s.Sched = true, 3
					}
					if p.fixture == "manyfiles" {
						s.DelayBound, s.Sched = true, 2
					}
				}
				out = append(out, s)
			}
			return out
		}
	}
	// one block of 450 matching rows: seven delivery batches, so a worker is still in the middle
	// of its scan when the cursor buffer (4 batches) is full
	setups["long"] = buildFixture("long", [][]map[string]any{append(hitRows("w", "x", 450), hitRows("v", "y", 3)...)})
	fixtureHits["long"] = 453
	Registry["C23"] = func(tier string) []Scenario {
		ps := []cqp{
			{"long", 1, 1, 1, false, false, "fresh", "C23", false, false},
			{"long", 2, 70, 0, true, false, "fresh", "C23", false, false},
			{"big", 2, 65, 1, false, false, "fresh", "C23", false, false},
			{"small", 2, 1, 1, true, false, "started", "C23", false, false},
			{"small", 2, -1, 0, false, true, "fresh", "C23", false, false},
		}
		if tier == "thorough" {
			ps = append(ps, cqp{"long", 2, 129, 1, false, false, "fresh", "C23", true, false}, cqp{"long", 1, 1, 0, true, false, "stopped", "C23", false, false},
				cqp{"small", 1, 1, 2, false, true, "fresh", "C23", false, false}, cqp{"big", 1, 1, 1, true, false, "fresh", "C23", false, false}, cqp{"manyfiles", 1, 1, 1, false, false, "fresh", "C23", false, false})
		}
		var out []Scenario
		for _, p := range ps {
			s := Scenario{Prop: "C23", Name: p.name(), Root: cqRoot(p), Setup: setups[p.fixture], Horizon: time.Second, Sched: 1, DelayBound: true, MaxSteps: 4000000}
			if p.fixture == "small" {
				s.Sched = 2
			}
			if p.faults {
				s.Fault = 1
			}
			out = append(out, s)
		}
		return out
	}
	// C19 (scheduler part): read failures on a file whose filter pass needs several region
	// reads (sections in reverse block order), then a follow-up query; besides the cursor's
	// terminal state the run is watched by the pool shim (nothing may be released twice) and
	// the follow-up query must return exactly the fixture's rows
	Registry["C19"] = func(tier string) []Scenario {
		ps := []cqp{
			{fixture: "reordered", conc: 2, takes: -1, faults: true, engine: "fresh", prop: "C19"},
			{fixture: "reordered", conc: 1, takes: -1, faults: true, engine: "fresh", prop: "C19"},
		}
		if tier == "thorough" {
			ps = append(ps, cqp{fixture: "reordered", conc: 2, takes: 1, closer: 1, faults: true, engine: "started", prop: "C19"},
				cqp{fixture: "reordered", conc: 2, takes: -1, cancel: true, faults: true, engine: "fresh", prop: "C19"})
		}
		var out []Scenario
		for _, p := range ps {
			s := Scenario{Prop: "C19", Name: p.name(), Root: cqRoot(p), Setup: func() { setupReordered() }, Horizon: time.Second, Sched: 1, DelayBound: true, Fault: 1, PoolPoints: false}
			if tier == "thorough" {
				s.Sched, s.Fault = 2, 2
			}
			out = append(out, s)
		}
		return out
	}
	Registry["C20"] = family("C20")
	Registry["C21"] = family("C21")
}

package scen

import (
	"context"
	"encoding/json"
	"fmt"
	"sync"
	"time"

	bs "github.com/danthegoodman1/bloomsearch"

	"verif/vapi"
)

// C03 (concurrent part) — rows returned by concurrent queries never share mutable state
// with each other or with pooled scan buffers. sync.Pool is the deterministic LIFO shim
// (maximal reuse) and Pool.Get/Put are scheduling points in this family.

func c03Root(fixture string, queries int) func() {
	return func() {
		data, meta := loadFixture(fixture)
		cfg := baseConfig()
		cfg.MaxQueryConcurrency = 2
		eng, err := bs.NewBloomSearchEngine(cfg, meta, data)
		if err != nil {
			vapi.Fail("config: %v", err)
			return
		}
		want := map[string]bool{}
		for _, f := range fixtures[fixture] {
			_ = f
		}
		var wg sync.WaitGroup
		type kept struct {
			row  map[string]any
			copy string
		}
		results := make([][]kept, queries)
		for q := 0; q < queries; q++ {
			wg.Add(1)
			go func(q int) {
				defer wg.Done()
				res, err := eng.Query(context.Background(), bs.NewQuery().Token("hit").Build())
				if err != nil {
					vapi.Fail("Query: %v", err)
					return
				}
				for res.Next() {
					r := res.Row()
					b, _ := json.Marshal(r)
					results[q] = append(results[q], kept{r, string(b)})
					// overwrite what we received: nobody else may see it
					if q == 0 {
						r["k"] = "OVERWRITTEN"
					}
				}
				if err := res.Err(); err != nil {
					vapi.Fail("C03: query %d failed: %v", q, err)
				}
			}(q)
		}
		wg.Wait()
		_ = want
		for q := range results {
			seen := map[string]int{}
			for _, k := range results[q] {
				// retained rows still equal what they were when received (apart from our own write)
				b, _ := json.Marshal(k.row)
				now := string(b)
				if q == 0 {
					k.row["k"] = "hit"
					b, _ = json.Marshal(k.row)
					now = string(b)
				}
				if now != k.copy {
					vapi.Fail("C03: a row retained from query %d changed after it was returned: was %s, now %s", q, k.copy, now)
				}
				var m map[string]any
				json.Unmarshal([]byte(k.copy), &m)
				if m["k"] != "hit" {
					vapi.Fail("C03: query %d received row %s which carries another consumer's mutation or foreign bytes", q, k.copy)
				}
				seen[fmt.Sprint(m["id"])]++
			}
			if len(results[q]) != fixtureHits[fixture] {
				vapi.Fail("C03: query %d returned %d rows, want %d", q, len(results[q]), fixtureHits[fixture])
			}
			for id, n := range seen {
				if n != 1 {
					vapi.Fail("C03: query %d returned row %s %d times", q, id, n)
				}
			}
		}
	}
}

func init() {
	rows := [][]map[string]any{
		append(hitRows("a", "x", 3), hitRows("b", "y", 2)...),
		append(hitRows("c", "x", 2), hitRows("d", "y", 1)...),
	}
	Registry["C03"] = func(tier string) []Scenario {
		var out []Scenario
		// "legacy": uncompressed blocks whose metadata carries the pre-normalisation empty
		// compression value (files written before the field existed)
		comps := []bs.CompressionType{bs.CompressionSnappy, "legacy"}
		if tier == "thorough" {
			comps = []bs.CompressionType{bs.CompressionSnappy, "legacy", bs.CompressionNone, bs.CompressionZstd}
		}
		for _, comp := range comps {
			name := "pool-" + string(comp)
			fixtureCompression[name] = comp
			setup := buildFixture(name, rows)
			if comp == "legacy" {
				fixtureCompression[name] = bs.CompressionNone
				base := setup
				setup = func() {
					base()
					for _, f := range fixtures[name] {
						for i := range f.md.DataBlocks {
							f.md.DataBlocks[i].Compression = ""
						}
					}
				}
			}
			fixtureHits[name] = 8
			s := Scenario{Prop: "C03", Name: name + "-q2", Root: c03Root(name, 2), Setup: setup, Horizon: time.Second,
				Sched: 2, DelayBound: true, PoolPoints: true}
			if tier == "thorough" {
				s.Sched = 3
			}
			out = append(out, s)
		}
		return out
	}
}

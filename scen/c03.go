package scen

import (
	"context"
	"encoding/json"
	"fmt"
	"strings"
	"sync"
	"time"

	bs "github.com/danthegoodman1/bloomsearch"

	"verif/vapi"
)

// C03 (concurrent part) — rows returned by concurrent queries never share mutable state
// with each other or with pooled scan buffers. sync.Pool is the deterministic LIFO shim
// (maximal reuse) and Pool.Get/Put are scheduling points in this family.

func c03Root(fixture string, queries int) func() {
	return func() {
		data, meta := loadFixture(fixture)
		cfg := baseConfig()
		cfg.MaxQueryConcurrency = 2
		eng, err := bs.NewBloomSearchEngine(cfg, meta, data)
		if err != nil {
			vapi.Fail("config: %v", err)
			return
		}
		want := map[string]bool{}
		for _, f := range fixtures[fixture] {
			_ = f
		}
		var wg sync.WaitGroup
		type kept struct {
			row  map[string]any
			copy string
		}
		results := make([][]kept, queries)
		for q := 0; q < queries; q++ {
			wg.Add(1)
			go func(q int) {
				defer wg.Done()
				res, err := eng.Query(context.Background(), bs.NewQuery().Token("hit").Build())
				if err != nil {
					vapi.Fail("Query: %v", err)
					return
				}
				for res.Next() {
					r := res.Row()
					b, _ := json.Marshal(r)
					results[q] = append(results[q], kept{r, string(b)})
					// overwrite what we received: nobody else may see it
					if q == 0 {
						r["k"] = "OVERWRITTEN"
					}
				}
				if err := res.Err(); err != nil {
					vapi.Fail("C03: query %d failed: %v", q, err)
				}
			}(q)
		}
		wg.Wait()
		_ = want
		for q := range results {
			seen := map[string]int{}
			for _, k := range results[q] {
				// retained rows still equal what they were when received (apart from our own write)
				b, _ := json.Marshal(k.row)
				now := string(b)
				if q == 0 {
					k.row["k"] = "hit"
					b, _ = json.Marshal(k.row)
					now = string(b)
				}
				if now != k.copy {
					vapi.Fail("C03: a row retained from query %d changed after it was returned: was %s, now %s", q, k.copy, now)
				}
				var m map[string]any
				json.Unmarshal([]byte(k.copy), &m)
				if m["k"] != "hit" {
					vapi.Fail("C03: query %d received row %s which carries another consumer's mutation or foreign bytes", q, k.copy)
				}
				seen[fmt.Sprint(m["id"])]++
			}
			if len(results[q]) != fixtureHits[fixture] {
				vapi.Fail("C03: query %d returned %d rows, want %d", q, len(results[q]), fixtureHits[fixture])
			}
			for id, n := range seen {
				if n != 1 {
					vapi.Fail("C03: query %d returned row %s %d times", q, id, n)
				}
			}
		}
	}
}

// c03StalledRoot: one block of more than 1 MiB of row data with more matching rows than the
// cursor buffers, a consumer that begins to read only after every worker is parked, then a
// second query over the same file. Every row of both queries must equal the stored one (the
// deterministic pool hands a buffer released early straight to the next scan, and reports a
// buffer released twice).
func c03StalledRoot(fixture string, second bool) func() {
	return func() {
		data, meta := loadFixture(fixture)
		cfg := baseConfig()
		cfg.MaxQueryConcurrency = 2
		eng, err := bs.NewBloomSearchEngine(cfg, meta, data)
		if err != nil {
			vapi.Fail("config: %v", err)
			return
		}
		drain := func(q int, res *bs.Results) {
			n := 0
			for res.Next() {
				r := res.Row()
				want := fmt.Sprintf("w%d", n)
				if r["k"] != "hit" || len(fmt.Sprint(r["pad"])) != bigPad || (fixtureHits[fixture] > 64 && fmt.Sprint(r["id"]) != want) {
					vapi.Fail("C03: query %d row %d is id=%v k=%v len(pad)=%d, stored row has id=%s k=hit len(pad)=%d", q, n, r["id"], r["k"], len(fmt.Sprint(r["pad"])), want, bigPad)
					return
				}
				n++
			}
			if err := res.Err(); err != nil {
				vapi.Fail("C03: query %d failed: %v", q, err)
			}
			if n != fixtureHits[fixture] {
				vapi.Fail("C03: query %d returned %d rows, want %d", q, n, fixtureHits[fixture])
			}
		}
		res, err := eng.Query(context.Background(), bs.NewQuery().Token("hit").Build())
		if err != nil {
			vapi.Fail("Query: %v", err)
			return
		}
		vapi.Quiesce() // scan finished or parked behind the full cursor buffer
		var wg sync.WaitGroup
		if second {
			wg.Add(1)
			go func() {
				defer wg.Done()
				r2, err := eng.Query(context.Background(), bs.NewQuery().Token("hit").Build())
				if err != nil {
					vapi.Fail("Query: %v", err)
					return
				}
				drain(1, r2)
			}()
		}
		drain(0, res)
		wg.Wait()
		r3, err := eng.Query(context.Background(), bs.NewQuery().Token("hit").Build())
		if err != nil {
			vapi.Fail("Query: %v", err)
			return
		}
		drain(2, r3)
	}
}

const bigPad = 4300

func init() {
	var big []map[string]any
	for i := 0; i < 266; i++ { // four full delivery batches fill the cursor buffer, the final partial one parks
		big = append(big, map[string]any{"id": fmt.Sprintf("w%d", i), "p": "x", "k": "hit", "pad": strings.Repeat(string(rune('a'+i%26)), bigPad)})
	}
	setupBig := buildFixture("bigblock", [][]map[string]any{big})
	fixtureHits["bigblock"] = 266
	rows := [][]map[string]any{
		append(hitRows("a", "x", 3), hitRows("b", "y", 2)...),
		append(hitRows("c", "x", 2), hitRows("d", "y", 1)...),
	}
	Registry["C03"] = func(tier string) []Scenario {
		var out []Scenario
		// "legacy": uncompressed blocks whose metadata carries the pre-normalisation empty
		// compression value (files written before the field existed)
		comps := []bs.CompressionType{bs.CompressionSnappy, "legacy"}
		if tier == "thorough" {
			comps = []bs.CompressionType{bs.CompressionSnappy, "legacy", bs.CompressionNone, bs.CompressionZstd}
		}
		for _, comp := range comps {
			name := "pool-" + string(comp)
			fixtureCompression[name] = comp
			setup := buildFixture(name, rows)
			if comp == "legacy" {
				fixtureCompression[name] = bs.CompressionNone
				base := setup
				setup = func() {
					base()
					for _, f := range fixtures[name] {
						for i := range f.md.DataBlocks {
							f.md.DataBlocks[i].Compression = ""
						}
					}
				}
			}
			fixtureHits[name] = 8
			s := Scenario{Prop: "C03", Name: name + "-q2", Root: c03Root(name, 2), Setup: setup, Horizon: time.Second,
				Sched: 2, DelayBound: true, PoolPoints: true}
			if tier == "thorough" {
				s.Sched = 3
			}
			out = append(out, s)
		}
		fixtureCompression["bigblock"] = bs.CompressionSnappy
		out = append(out, Scenario{Prop: "C03", Name: "bigblock-stalled", Root: c03StalledRoot("bigblock", false), Setup: setupBig, Horizon: time.Second,
			Sched: 0, DelayBound: true, PoolPoints: true, MaxSteps: 2000000})
		out = append(out, Scenario{Prop: "C03", Name: "bigblock-stalled-second", Root: c03StalledRoot("bigblock", true), Setup: setupBig, Horizon: time.Second,
			Sched: 1, DelayBound: true, PoolPoints: true, MaxSteps: 2000000})
		return out
	}
}

package scen

import (
	"bytes"
	"context"
	"fmt"
	"sync"
	"time"

	bs "github.com/danthegoodman1/bloomsearch"

	"verif/hstore"
	"verif/vapi"
)

// C22 — in-progress DataStore reads never exceed MaxQueryConcurrency across all queries;
// a query whose consumer stopped reading does not keep others from completing.

type c22p struct {
	conc    int
	queries int
	stalled bool // query 0 is never drained (its consumer stopped reading)
	fixture string
	// closeOne: another task closes query 0's cursor at some point (a worker of that query
	// may be waiting for an I/O slot then)
	closeOne bool
}

func (p c22p) name() string {
	n := fmt.Sprintf("%s-c%d-q%d-stalled_%v", p.fixture, p.conc, p.queries, p.stalled)
	if p.closeOne {
		n += "-closeone"
	}
	return n
}

func c22Root(p c22p) func() {
	return func() {
		data, meta := loadFixture(p.fixture)
		inRead := 0
		gate := make(chan struct{})
		parked := 0
		data.Hook = &hstore.Hook{
			Enter: func(op, ptr string, n int) error {
				if op == "Read" {
					inRead++
					if inRead > p.conc {
						vapi.Fail("C22: %d DataStore reads by queries in progress at once, MaxQueryConcurrency=%d", inRead, p.conc)
					}
					if p.closeOne && parked < 2 {
						// the first two reads each stay in progress (holding a slot) until the
						// controller lets them go, one at a time
						parked++
						<-gate
					}
					vapi.Point("read-in-progress")
				}
				return nil
			},
			Exit: func(op, ptr string, err error) {
				if op == "Read" {
					inRead--
				}
			},
		}
		cfg := baseConfig()
		cfg.MaxQueryConcurrency = p.conc
		eng, err := bs.NewBloomSearchEngine(cfg, meta, data)
		if err != nil {
			vapi.Fail("config: %v", err)
			return
		}
		ctx := context.Background()
		var wg sync.WaitGroup
		var stalledRes *bs.Results
		if p.stalled {
			r, err := eng.Query(ctx, bs.NewQuery().Token("hit").Build())
			if err != nil {
				vapi.Fail("Query: %v", err)
				return
			}
			stalledRes = r
			vapi.Quiesce() // its workers fill the row buffer and park on delivery
		}
		toClose := make(chan *bs.Results, 1)
		if p.closeOne {
			// query 0 starts alone and parks in its filter-region read (holding the only slot);
			// query 1 then starts and queues for the slot; read 1 is let go: query 0 finishes its
			// file stage, hands the slot back and has a block job waiting for a slot, while the
			// next read to start parks again; query 0 is closed in that state; then everything runs
			wg.Add(1)
			go func() {
				defer wg.Done()
				res := <-toClose
				vapi.Quiesce()
				vapi.Quiesce() // (query 1 has been started by main in between)
				gate <- struct{}{}
				vapi.Quiesce()
				// Close waits for the query to wind down, which may itself have to wait for a parked
				// read of that query: it runs as its own task
				wg.Add(1)
				go func() { defer wg.Done(); res.Close() }()
				vapi.Quiesce()
				close(gate)
			}()
		}
		for q := 0; q < p.queries; q++ {
			if p.closeOne && q == 1 {
				vapi.Quiesce() // query 0 is parked in its first read by now
			}
			wg.Add(1)
			go func(q int) {
				defer wg.Done()
				tok := []string{"other", "hit"}[q%2]
				if p.stalled {
					tok = "other"
				}
				res, err := eng.Query(ctx, bs.NewQuery().Token(tok).Build())
				if err != nil {
					vapi.Fail("Query: %v", err)
					return
				}
				if p.closeOne && q == 0 {
					toClose <- res
				}
				n := 0
				for res.Next() {
					n++
				}
				if err := res.Err(); err != nil {
					vapi.Fail("C22: query %d failed: %v", q, err)
				}
				want := fixtureHits[p.fixture]
				if tok == "other" {
					want = 1
				}
				if p.closeOne && q == 0 {
					want = n // closed at an arbitrary moment: any prefix of its rows
				}
				if n != want {
					vapi.Fail("C22: query %d (Token(%s)) returned %d rows, want %d", q, tok, n, want)
				}
			}(q)
		}
		wg.Wait() // a starved query shows up as a deadlock here
		if stalledRes != nil {
			stalledRes.Close()
		}
	}
}

// reorderSections rewrites an engine-written file so that its blocks' filter sections lie in
// the region in reverse block order (allowed by the format): the filter pass then needs one
// region read per block instead of one for all.
func reorderSections(f fixtureFile) (fixtureFile, error) {
	md := f.md
	md.DataBlocks = append([]bs.DataBlockMetadata(nil), f.md.DataBlocks...)
	var out bytes.Buffer
	out.Write(f.data[:md.BlockFilterRegionOffset])
	for i := len(md.DataBlocks) - 1; i >= 0; i-- {
		b := &md.DataBlocks[i]
		sec := f.data[b.BloomFilterOffset : b.BloomFilterOffset+b.BloomFilterSize]
		b.BloomFilterOffset = out.Len()
		out.Write(sec)
	}
	if out.Len() != md.BlockFilterRegionOffset+md.BlockFilterRegionSize {
		return f, fmt.Errorf("region size changed")
	}
	if err := bs.WriteFileFooter(&out, &md); err != nil {
		return f, err
	}
	parsed, _, err := bs.ReadFileMetadata(bytes.NewReader(out.Bytes()))
	if err != nil {
		return f, err
	}
	parsed.BloomFilters = md.BloomFilters
	return fixtureFile{f.ptr, out.Bytes(), *parsed}, nil
}

// setupReordered builds the "reordered" fixture (set in init below; also used by the C19 family).
var setupReordered func()

func init() {
	wide := [][]map[string]any{
		append(hitRows("w", "x", 330), map[string]any{"id": "miss", "p": "y", "k": "other"}),
	}
	setupWide := buildFixture("wide", wide)
	fixtureHits["wide"] = 330
	small := [][]map[string]any{
		append(hitRows("a", "x", 2), hitRows("b", "y", 3)...),
		append(hitRows("c", "x", 1), map[string]any{"id": "miss", "p": "y", "k": "other"}),
	}
	setupSmall := buildFixture("small", small)
	// one file of 8 one-row blocks (a partition each): more end-of-scan deliveries than the
	// cursor buffers (4 batches) plus the concurrency budget
	var many []map[string]any
	for i := 0; i < 7; i++ {
		many = append(many, map[string]any{"id": fmt.Sprintf("m%d", i), "p": fmt.Sprintf("p%d", i), "k": "hit"})
	}
	many = append(many, map[string]any{"id": "miss", "p": "q", "k": "other"})
	setupMany := buildFixture("manysmall", [][]map[string]any{many})
	fixtureHits["manysmall"] = 7
	// "small" with every file's filter sections in reverse block order
	setupReordered = func() {
		setupSmall()
		if fixtures["reordered"] != nil {
			return
		}
		var out []fixtureFile
		for _, f := range fixtures["small"] {
			g, err := reorderSections(f)
			if err != nil {
				vapi.Fail("fixture reordered: %v", err)
				return
			}
			out = append(out, g)
		}
		fixtures["reordered"] = out
	}
	fixtureHits["reordered"] = 6
	// one file with a single matching row: the smallest query that still opens, reads the filter
	// region and reads one block
	setupTiny := buildFixture("tiny", [][]map[string]any{{{"id": "t0", "p": "x", "k": "hit"}, {"id": "miss", "p": "y", "k": "other"}}})
	fixtureHits["tiny"] = 1
	Registry["C22"] = func(tier string) []Scenario {
		ps := []c22p{{1, 2, false, "small", false}, {2, 2, false, "small", false}, {1, 1, true, "wide", false}, {1, 1, true, "manysmall", false}, {2, 1, true, "manysmall", false}, {1, 2, false, "reordered", false}, {1, 2, false, "small", true}}
		if tier == "thorough" {
			ps = append(ps, c22p{2, 3, false, "small", false}, c22p{1, 3, false, "small", false}, c22p{2, 2, true, "wide", false}, c22p{1, 2, true, "wide", false}, c22p{3, 2, true, "manysmall", false}, c22p{2, 2, false, "manysmall", false}, c22p{2, 3, false, "reordered", false}, c22p{1, 3, false, "reordered", false}, c22p{2, 3, false, "small", true}, c22p{1, 2, false, "manysmall", true})
		}
		var out []Scenario
		for _, p := range ps {
			s := Scenario{Prop: "C22", Name: p.name(), Root: c22Root(p), Horizon: time.Second, Sched: 2, DelayBound: true, MaxSteps: 2000000}
			s.Setup = setupSmall
			if p.fixture == "wide" {
				s.Setup = setupWide
				s.Sched = 1
			}
			if p.fixture == "manysmall" {
				s.Setup = setupMany
				s.Sched = 1
			}
			if p.fixture == "reordered" {
				s.Setup = setupReordered
			}
			if p.closeOne {
				s.Sched = 1
				if p.fixture == "manysmall" {
					s.Setup = setupMany
				}
				if p.fixture == "tiny" {
					s.Setup = setupTiny
				}
			}
			if tier == "thorough" && p.fixture == "small" && p.queries == 2 {
				s.DelayBound, s.Sched = false, 1
			}
			out = append(out, s)
		}
		return out
	}
}

package scen

import (
	"context"
	"encoding/json"
	"fmt"
	"os"
	"path/filepath"
	"sort"
	"strings"
	"sync"
	"time"

	bs "github.com/danthegoodman1/bloomsearch"

	"verif/hstore"
	"verif/refmodel"
	"verif/vapi"
	"verif/vos"
)

// C14 — queries concurrent with flushes and merges see a consistent snapshot, for both
// shipped MetaStores.

type c14p struct {
	store  string // mem-posix | mem-object | fs
	ingest bool   // a task ingests and flushes one more batch
	merge  bool   // a task merges
	// noquery: no concurrent query task; only the state after all tasks finished is examined
	// (preemption-bounded: overlapping MetaStore commits of a flush and a merge)
	noquery bool
}

func (p c14p) name() string {
	n := fmt.Sprintf("%s-ingest_%v-merge_%v", p.store, p.ingest, p.merge)
	if p.noquery {
		n += "-noquery"
	}
	return n
}

func init() {
	if vapi.Controlled {
		vos.Yield = func(kind string) { vapi.PointExternal(kind) }
	}
}

func c14Root(p c14p) func() {
	return func() {
		var metaStore bs.MetaStore
		var dataStore bs.DataStore
		ingested := map[string]bool{}
		for _, f := range fixtures["c14"] {
			for _, b := range f.md.DataBlocks {
				_ = b
			}
		}
		for _, id := range []string{"a0", "a1", "b0", "c0", "c1"} {
			ingested[id] = true
		}
		switch p.store {
		case "fs":
			dir, err := os.MkdirTemp(os.Getenv("VERIF_SHM"), "c14-")
			if err != nil {
				vapi.Fail("tempdir: %v", err)
				return
			}
			defer os.RemoveAll(dir)
			for i, f := range fixtures["c14"] {
				if err := os.WriteFile(filepath.Join(dir, fmt.Sprintf("pre%d.dat", i)), f.data, 0o600); err != nil {
					vapi.Fail("preload: %v", err)
					return
				}
			}
			st := bs.NewFileSystemDataStore(dir)
			n := 0
			// the hook only exists under the verif build tag (added through the overlay), so it is
			// reached through an interface: this file then also type-checks against the plain tree
			any(st).(interface{ VerifSetFileNameDraw(func() string) }).VerifSetFileNameDraw(func() string { n++; return fmt.Sprintf("new%02d", n) })
			metaStore, dataStore = st, st
		default:
			data := hstore.NewMemData()
			data.ObjectLike = p.store == "mem-object"
			mm := bs.NewMemoryMetaStore()
			var writes []bs.WriteOperation
			for i := range fixtures["c14"] {
				f := fixtures["c14"][i]
				ptr := data.Put(f.data)
				md := f.md
				writes = append(writes, bs.WriteOperation{FileMetadata: &md, FilePointerBytes: []byte(ptr)})
			}
			mm.Update(context.Background(), writes, nil)
			metaStore, dataStore = mm, data
		}
		cfg := baseConfig()
		cfg.PartitionFunc = func(r map[string]any) string { s, _ := r["p"].(string); return s }
		cfg.MaxFilesToMergePerOperation = 4
		eng, err := bs.NewBloomSearchEngine(cfg, metaStore, dataStore)
		if err != nil {
			vapi.Fail("config: %v", err)
			return
		}
		eng.Start()
		ctx := context.Background()
		var wg sync.WaitGroup
		if p.ingest {
			ingested["n0"] = true
			wg.Add(1)
			go func() {
				defer wg.Done()
				done := make(chan error, 1)
				if err := eng.IngestRows(ctx, []map[string]any{{"id": "n0", "p": "x", "k": "hit"}}, done); err != nil {
					return
				}
				eng.Flush(ctx)
				if err := <-done; err == nil {
					vapi.Log("ack n0")
				}
			}()
		}
		if p.merge {
			wg.Add(1)
			go func() {
				defer wg.Done()
				vapi.Log("call Merge")
				_, err := eng.Merge(ctx)
				vapi.Log("ret Merge %v", err == nil)
			}()
		}
		var got []string
		var qerr error
		if !p.noquery {
			wg.Add(1)
		}
		go func() {
			if p.noquery {
				return
			}
			defer wg.Done()
			vapi.Log("call Query")
			res, err := eng.Query(ctx, nil)
			if err != nil {
				qerr = err
				return
			}
			for res.Next() {
				got = append(got, fmt.Sprint(res.Row()["id"]))
			}
			qerr = res.Err()
			vapi.Log("ret Query %v", qerr == nil)
		}()
		wg.Wait()
		log := vapi.LogSnapshot()
		qi := logIndex(log, "call Query")
		counts := map[string]int{}
		for _, id := range got {
			counts[id]++
			if !ingested[id] {
				vapi.Fail("C14[%s]: query returned row %s which was never ingested", p.store, id)
			}
		}
		if qerr == nil && !p.noquery {
			must := []string{"a0", "a1", "b0", "c0", "c1"}
			if ai := logIndex(log, "ack n0"); ai >= 0 && ai < qi {
				must = append(must, "n0")
			}
			var missing []string
			for _, id := range must {
				if counts[id] == 0 {
					missing = append(missing, id)
				}
			}
			if len(missing) > 0 {
				tag := ""
				mc, mr, qr := logIndex(log, "call Merge"), logIndexPrefix(log, "ret Merge"), logIndexPrefix(log, "ret Query")
				if p.store == "fs" && p.merge && mc >= 0 && mc < qr && mr > qi && !strings.Contains(strings.Join(missing, ","), "n0") {
					tag = " [fs-merge-window]" // catalogued: sources listed by the scan were removed by the merge before they were opened
				}
				vapi.Fail("C14[%s]%s: query finished with Err()==nil but rows %v, acknowledged before the query started, are missing", p.store, tag, missing)
			}
			var dups []string
			for id, n := range counts {
				if n > 1 {
					dups = append(dups, id)
				}
			}
			sort.Strings(dups)
			if len(dups) > 0 {
				tag := ""
				if p.store == "fs" && p.merge && !strings.Contains(strings.Join(dups, ","), "n0") {
					tag = " [fs-merge-window]" // catalogued: the directory scan saw a merge output next to its sources
				}
				vapi.Fail("C14[%s]%s: query finished with Err()==nil but rows %v were returned more than once", p.store, tag, dups)
			}
		}
		// once every task has finished, the stores must hold exactly what was acknowledged (a
		// commit lost or applied twice by overlapping MetaStore updates shows here even when the
		// concurrent query missed it): the files the MetaStore references are read directly
		if md, ok := dataStore.(*hstore.MemData); ok {
			final := map[string]int{}
			complete := true
			for f, err := range metaStore.GetMaybeFilesForQuery(ctx, nil) {
				if err != nil {
					complete = false
					break
				}
				b, ok := md.BytesNoLock(string(f.PointerBytes))
				if !ok {
					vapi.Fail("C14[%s]: after all tasks finished the MetaStore references %s which the DataStore no longer holds", p.store, f.PointerBytes)
					continue
				}
				pf, err := refmodel.ParseFile(b)
				if err != nil {
					complete = false
					continue
				}
				for _, blk := range pf.Blocks {
					for _, rb := range blk.Rows {
						var m map[string]any
						if json.Unmarshal(rb, &m) == nil {
							final[fmt.Sprint(m["id"])]++
						}
					}
				}
			}
			must := []string{"a0", "a1", "b0", "c0", "c1"}
			if logIndex(log, "ack n0") >= 0 {
				must = append(must, "n0")
			}
			for _, id := range must {
				if complete && final[id] != 1 {
					vapi.Fail("C14[%s]: after all tasks finished the referenced files hold acknowledged row %s %d times (all rows: %v)", p.store, id, final[id], final)
					break
				}
			}
		}
		eng.Stop(ctx)
	}
}

// c14FixtureSetup writes the two-file fixture shared by the C14 and C13 scenarios.
var c14FixtureSetup = buildFixture("c14", [][]map[string]any{
	append(hitRows("a", "x", 2), hitRows("b", "y", 1)...),
	hitRows("c", "x", 2),
})

func init() {
	setup := c14FixtureSetup
	Registry["C14"] = func(tier string) []Scenario {
		ps := []c14p{{"mem-posix", false, true, false}, {"mem-object", true, true, false}, {"fs", false, true, false}, {"mem-posix", true, false, false}, {"mem-posix", true, true, true}}
		if tier == "thorough" {
			ps = append(ps, c14p{"mem-posix", true, true, false}, c14p{"fs", true, true, false}, c14p{"fs", true, false, false}, c14p{"mem-object", false, true, false}, c14p{"mem-object", true, true, true})
		}
		var out []Scenario
		for _, p := range ps {
			s := Scenario{Prop: "C14", Name: p.name(), Root: c14Root(p), Setup: setup, Horizon: time.Second, Sched: 2, DelayBound: true}
			if tier == "thorough" {
				s.Sched = 3
			}
			if p.noquery {
				s.DelayBound, s.Sched = false, 1
				if tier == "thorough" {
					s.Sched = 2
				}
			}
			out = append(out, s)
		}
		return out
	}
}

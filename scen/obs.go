package scen

import (
	"encoding/json"
	"fmt"
	"strings"

	"verif/hstore"
	"verif/refmodel"
	"verif/vapi"
)

// visibleIDs returns the multiset of "id" values stored in the files the MetaStore
// references, read straight from the harness stores (no engine, no scheduling points under
// the controlled scheduler).
func visibleIDs(meta *hstore.MemMeta, data *hstore.MemData) map[string]int {
	out := map[string]int{}
	var ptrs []string
	if vapi.Controlled {
		ptrs = meta.PointersNoLock()
	} else {
		ptrs = meta.Pointers()
	}
	for _, p := range ptrs {
		var b []byte
		var ok bool
		if vapi.Controlled {
			b, ok = data.BytesNoLock(p)
		} else {
			b, ok = data.Bytes(p)
		}
		if !ok {
			out["!missing:"+p]++
			continue
		}
		pf, err := refmodel.ParseFile(b)
		if err != nil {
			out["!unparsable:"+p]++
			continue
		}
		for _, blk := range pf.Blocks {
			for _, rb := range blk.Rows {
				var m map[string]any
				if json.Unmarshal(rb, &m) == nil {
					out[fmt.Sprint(m["id"])]++
				}
			}
		}
	}
	return out
}

func logIndex(log []string, s string) int {
	for i, l := range log {
		if l == s {
			return i
		}
	}
	return -1
}

func logIndexPrefix(log []string, prefix string) int {
	for i, l := range log {
		if strings.HasPrefix(l, prefix) {
			return i
		}
	}
	return -1
}

package scen

import "context"

func ctxBackground() context.Context { return context.Background() }

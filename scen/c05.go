package scen

import (
	"context"
	"fmt"
	"sync"
	"time"

	bs "github.com/danthegoodman1/bloomsearch"

	"verif/hstore"
	"verif/vapi"
)

// C05 — every accepted batch is answered exactly once.

type c05p struct {
	ib, rows int    // IngestBufferSize, MaxBufferedRows (0 = default/large)
	start    string // first | conc | none
	stop     string // after | conc | none | deadline
	shape    string // plain | bad | flush | empty | multi
	ch       string // buf | unbuf
	faults   bool
}

func (p c05p) name() string {
	f := ""
	if p.faults {
		f = "-faults"
	}
	return fmt.Sprintf("ib%d-rows%d-start_%s-stop_%s-%s-%s%s", p.ib, p.rows, p.start, p.stop, p.shape, p.ch, f)
}

// batchRec tracks one done channel.
type batchRec struct {
	name     string
	done     chan error
	unbuf    bool
	accepted vapi.Cell[bool]
	count    vapi.Counter
	nils     vapi.Counter
	nonEmpty bool
}

func newBatchRec(name string, unbuf bool, late ...chan struct{}) *batchRec {
	r := &batchRec{name: name, unbuf: unbuf}
	if unbuf {
		r.done = make(chan error)
		go func() {
			if len(late) > 0 && late[0] != nil {
				<-late[0] // a receiver that only arrives once Stop has returned (it then keeps receiving)
			}
			for {
				v := <-r.done
				r.count.Add(1)
				if v == nil {
					r.nils.Add(1)
				}
			}
		}()
	} else {
		r.done = make(chan error, 2)
	}
	return r
}

// drain moves buffered answers into the counters (buffered channels only).
func (r *batchRec) drain() {
	if r.unbuf {
		return
	}
	for {
		select {
		case v := <-r.done:
			r.count.Add(1)
			if v == nil {
				r.nils.Add(1)
			}
		default:
			return
		}
	}
}

type c05item struct {
	flush bool
	rows  []map[string]any
	rec   *batchRec
}

func c05Root(p c05p) func() {
	return func() {
		data := hstore.NewMemData()
		meta := hstore.NewMemMeta()
		if p.faults {
			data.Hook = faultHook("data")
			meta.Hook = faultHook("meta")
		}
		cfg := baseConfig()
		cfg.IngestBufferSize = p.ib
		if p.start == "none" && p.stop == "after" {
			// Nobody consumes before Stop is called, and Stop is only called once the
			// producers returned: the buffer must hold every request.
			cfg.IngestBufferSize = 4
		}
		if p.rows > 0 {
			cfg.MaxBufferedRows = p.rows
		}
		if p.stop == "none" {
			cfg.MaxBufferedTime = 50 * time.Millisecond
		}
		if p.shape == "multi" {
			cfg.PartitionFunc = func(r map[string]any) string { s, _ := r["p"].(string); return s }
		}
		eng, err := bs.NewBloomSearchEngine(cfg, meta, data)
		if err != nil {
			vapi.Fail("config: %v", err)
			return
		}
		unbuf := p.ch == "unbuf" || p.ch == "late"
		var lateGate chan struct{}
		if p.ch == "late" {
			lateGate = make(chan struct{})
		}
		mk := func(name string, rows []map[string]any) c05item {
			return c05item{rows: rows, rec: newBatchRec(name, unbuf, lateGate)}
		}
		p1 := []c05item{mk("A", []map[string]any{row("k", "a")})}
		var p2 []c05item
		switch p.shape {
		case "plain":
			p2 = []c05item{mk("B", []map[string]any{row("k", "b")}), mk("C", []map[string]any{row("k", "c")})}
		case "bad":
			p2 = []c05item{mk("B", []map[string]any{row("k", "b"), {"k": func() {}}}), mk("C", []map[string]any{row("k", "c")})}
		case "empty":
			p2 = []c05item{mk("B", []map[string]any{}), mk("C", []map[string]any{row("k", "c")})}
		case "flush":
			p2 = []c05item{mk("B", []map[string]any{row("k", "b")}), {flush: true}}
		case "multi":
			p2 = []c05item{mk("B", []map[string]any{{"k": "b", "p": "x"}, {"k": "b2", "p": "y"}}), mk("C", []map[string]any{{"k": "c", "p": "x"}})}
		}
		var recs []*batchRec
		for _, it := range append(append([]c05item{}, p1...), p2...) {
			if it.rec != nil {
				recs = append(recs, it.rec)
			}
		}
		ctx := context.Background()
		var wg sync.WaitGroup
		if p.start == "first" {
			eng.Start()
		}
		if p.start == "conc" {
			wg.Add(1)
			go func() { defer wg.Done(); eng.Start() }()
		}
		producer := func(items []c05item) {
			defer wg.Done()
			for _, it := range items {
				if it.flush {
					err := eng.Flush(ctx)
					vapi.Log("ret Flush %v", err == nil)
					continue
				}
				err := eng.IngestRows(ctx, it.rows, it.rec.done)
				vapi.Log("ret Ingest %s %v", it.rec.name, err == nil)
				it.rec.accepted.Set(err == nil)
			}
		}
		wg.Add(2)
		go producer(p1)
		go producer(p2)
		var stopErr vapi.Cell[error]
		stopCalled := p.stop != "none"
		var cancel context.CancelFunc
		stopCtx := ctx
		if p.stop == "deadline" {
			stopCtx, cancel = context.WithTimeout(ctx, 150*time.Millisecond)
			defer cancel()
		}
		if p.stop == "conc" || p.stop == "deadline" {
			wg.Add(1)
			go func() {
				defer wg.Done()
				err := eng.Stop(stopCtx)
				vapi.Log("ret Stop %v", err == nil)
				stopErr.Set(err)
			}()
		}
		wg.Wait()
		if p.stop == "after" {
			err := eng.Stop(ctx)
			vapi.Log("ret Stop %v", err == nil)
			stopErr.Set(err)
		}
		if lateGate != nil {
			close(lateGate)
		}
		if p.stop == "none" {
			time.Sleep(400 * time.Millisecond) // lets the time-based flush happen (virtual time)
		}
		vapi.Quiesce()
		serr, _ := stopErr.Get()
		mustAnswer := !stopCalled || serr == nil
		for _, r := range recs {
			r.drain()
			c := r.count.Load()
			acc, _ := r.accepted.Get()
			if c > 1 {
				vapi.Fail("C05: batch %s answered %d times", r.name, c)
			}
			if acc && c == 0 && mustAnswer {
				vapi.Fail("C05: accepted batch %s never answered (stopCalled=%v stopErr=%v)", r.name, stopCalled, serr)
			}
		}
	}
}

func init() {
	Registry["C05"] = func(tier string) []Scenario {
		var ps []c05p
		if tier == "quick" {
			ps = []c05p{
				{1, 1, "first", "conc", "plain", "buf", false},
				{1, 2, "first", "conc", "flush", "buf", false},
				{2, 0, "first", "after", "bad", "unbuf", false},
				{1, 0, "conc", "conc", "plain", "buf", false},
				{1, 1, "first", "none", "empty", "buf", false},
				{2, 2, "first", "deadline", "multi", "unbuf", false},
				{1, 1, "first", "after", "plain", "buf", true},
				{1, 0, "none", "after", "plain", "buf", false},
				// receivers that arrive only after Stop(deadline) has returned: the deadline abort
				// fires while a worker is parked on a done channel (finding F13)
				{1, 0, "first", "deadline", "empty", "late", false},
			}
		} else {
			for _, ib := range []int{1, 2} {
				for _, rows := range []int{1, 2, 0} {
					for _, start := range []string{"first", "conc", "none"} {
						for _, stop := range []string{"after", "conc", "none", "deadline"} {
							if start == "none" && stop == "none" {
								continue
							}
							for _, shape := range []string{"plain", "bad", "flush", "empty", "multi"} {
								if start == "none" && stop == "after" && shape == "flush" {
									// Flush blocks until a worker processes it; with no Start and Stop only after
									// the producers returned the harness itself would wait for ever
									continue
								}
								for _, ch := range []string{"buf", "unbuf"} {
									ps = append(ps, c05p{ib, rows, start, stop, shape, ch, false})
								}
							}
						}
					}
				}
			}
			for _, rows := range []int{1, 2, 0} {
				for _, shape := range []string{"plain", "bad", "flush", "empty", "multi"} {
					for _, start := range []string{"first", "conc", "none"} {
						ps = append(ps, c05p{1, rows, start, "deadline", shape, "late", false})
					}
				}
			}
			for _, rows := range []int{1, 0} {
				for _, stop := range []string{"after", "conc"} {
					for _, shape := range []string{"plain", "flush", "multi"} {
						ps = append(ps, c05p{1, rows, "first", stop, shape, "buf", true})
					}
				}
			}
		}
		var out []Scenario
		for _, p := range ps {
			s := Scenario{Prop: "C05", Name: p.name(), Root: c05Root(p), Horizon: time.Second, Sched: 1}
			if tier == "thorough" {
				s.Sched = 2
			}
			if p.faults {
				s.Fault = 1
			}
			out = append(out, s)
		}
		return append(out, c05Scripted(tier)...)
	}
}

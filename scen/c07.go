package scen

import (
	"context"
	"errors"
	"fmt"
	"strings"
	"sync"
	"time"

	bs "github.com/danthegoodman1/bloomsearch"

	"verif/hstore"
	"verif/vapi"
)

// C07 — acknowledgements respect acceptance order; Flush is a durability barrier.

type c07p struct {
	rows   int    // MaxBufferedRows (0 = large)
	second string // what the second caller does: "B+Flush" | "Flush" | "B" | "E+Flush" (E = empty batch) | "" (nothing)
	gate   string // store call held until a releaser task opens it: "" | "CreateFile" | "Update" | "Close"
	ib     int
	// first is the first caller's script (default "A"): space-separated operations, a capital
	// letter other than E/F ingests a one-row batch of that name, E an empty batch, F calls Flush.
	first string
	// tokens > 0: the gate admits one held call per token (the releaser hands them out one
	// by one, each hand-over a scheduling point) and opens for good after the last one;
	// tokens == 0: the releaser opens the gate once.
	tokens int
	// unbuf: the done channels of non-empty batches cannot take an answer until their receiver
	// has arrived: a capacity-1 channel that still holds an older value which the receiver
	// takes out first (with a truly unbuffered channel the hand-over and the receiver's
	// bookkeeping are two steps, which would blur "has been answered")
	unbuf bool
	// grp > 0: rows are partitioned (every batch has a row in partition x, every other batch a
	// second row in partition y) and MaxRowGroupRows = grp, so a partition-level limit can
	// trigger a flush while another partition holds fewer rows
	grp int
}

func (p c07p) name() string {
	n := fmt.Sprintf("rows%d-%s-gate_%s-ib%d", p.rows, p.second, p.gate, p.ib)
	if p.first != "" {
		n += "-first_" + strings.ReplaceAll(p.first, " ", "") + fmt.Sprintf("-tok%d", p.tokens)
	}
	if p.unbuf {
		n += "-unbuf"
	}
	if p.grp > 0 {
		n += fmt.Sprintf("-grp%d", p.grp)
	}
	return n
}

type c07batch struct {
	name     string
	ids      []string
	nonEmpty bool
	done     chan error
	got      vapi.Cell[error]
	recvd    vapi.Counter
	// stale: the done channel was handed to the engine full (see c07p.unbuf)
	stale      bool
	staleTaken vapi.Cell[bool]
}

var errStale = errors.New("older value left in the caller's channel")

func c07Root(p c07p) func() {
	return func() {
		data, meta := hstore.NewMemData(), hstore.NewMemMeta()
		gate := make(chan struct{})
		if p.gate != "" {
			h := &hstore.Hook{Enter: func(op, ptr string, n int) error {
				if op == p.gate {
					<-gate
				}
				return nil
			}}
			data.Hook, meta.Hook = h, h
		}
		cfg := baseConfig()
		cfg.IngestBufferSize = p.ib
		if p.rows > 0 {
			cfg.MaxBufferedRows = p.rows
		}
		if p.grp > 0 {
			cfg.PartitionFunc = func(r map[string]any) string { s, _ := r["p"].(string); return s }
			cfg.MaxRowGroupRows = p.grp
		}
		eng, err := bs.NewBloomSearchEngine(cfg, meta, data)
		if err != nil {
			vapi.Fail("config: %v", err)
			return
		}
		eng.Start()
		ctx := context.Background()
		mk := func(name string, n int) *c07batch {
			b := &c07batch{name: name, nonEmpty: n > 0, done: make(chan error, 1)}
			if p.unbuf && n > 0 {
				b.done <- errStale
				b.stale = true
			}
			for i := 0; i < n; i++ {
				b.ids = append(b.ids, fmt.Sprintf("%s%d", name, i))
			}
			return b
		}
		// the callers' scripts
		first := p.first
		if first == "" {
			first = "A"
		}
		second := map[string]string{"B+Flush": "B F", "Flush": "F", "B": "B", "E+Flush": "E F", "": ""}[p.second]
		var batches []*c07batch
		byName := map[string]*c07batch{}
		for _, sc := range []string{first, second} {
			for _, op := range strings.Fields(sc) {
				switch op {
				case "F":
				case "E":
					b := mk(fmt.Sprintf("E%d", len(batches)), 0)
					batches = append(batches, b)
				default:
					n := 1
					if p.grp > 0 && len(byName)%2 == 0 {
						n = 2 // this batch also has a row in the second partition
					}
					b := mk(op, n)
					batches = append(batches, b)
					byName[op] = b
				}
			}
		}
		rowsOf := func(b *c07batch) []map[string]any {
			rows := []map[string]any{}
			for i, id := range b.ids {
				r := map[string]any{"id": id}
				if p.grp > 0 {
					r["p"] = []string{"x", "y"}[i%2]
				}
				rows = append(rows, r)
			}
			return rows
		}
		answered := func(b *c07batch) bool {
			if b.stale {
				if t, _ := b.staleTaken.Get(); !t {
					return false // the channel still holds the older value: nothing can have been delivered
				}
			}
			return b.recvd.Load() > 0 || len(b.done) > 0
		}
		// barrier: everything accepted before `call` (a log line) must already be answered,
		// and what was answered nil must be visible.
		barrier := func(what, call string) {
			log := vapi.LogSnapshot()
			ci := logIndex(log, call)
			vis := map[string]int(nil)
			for _, y := range batches {
				if !y.nonEmpty || "call "+y.name == call {
					continue
				}
				ri := logIndex(log, "ret "+y.name+" ok")
				if ri < 0 || ri > ci {
					continue
				}
				if !answered(y) {
					vapi.Fail("C07: %s completed with nil although batch %s, accepted before %q, has not been answered", what, y.name, call)
					continue
				}
				if v, ok := y.got.Get(); ok && v == nil {
					if vis == nil {
						vis = visibleIDs(meta, data)
					}
					for _, id := range y.ids {
						if vis[id] == 0 {
							vapi.Fail("C07: %s completed with nil, batch %s (accepted earlier) was answered nil, but its row %s is not committed", what, y.name, id)
						}
					}
				}
			}
		}
		var wg sync.WaitGroup
		receiver := func(b *c07batch) {
			defer wg.Done()
			if b.stale {
				<-b.done // make room: from here on the engine's answer can be delivered
				b.staleTaken.Set(true)
			}
			v := <-b.done
			b.got.Set(v)
			b.recvd.Add(1)
			if v == nil && b.nonEmpty {
				vis := visibleIDs(meta, data)
				for _, id := range b.ids {
					if vis[id] != 1 {
						vapi.Fail("C07/C06: batch %s answered nil but row %s is committed %d times", b.name, id, vis[id])
					}
				}
				barrier("ack of "+b.name, "call "+b.name)
			}
		}
		ingest := func(b *c07batch) bool {
			vapi.Log("call %s", b.name)
			err := eng.IngestRows(ctx, rowsOf(b), b.done)
			if err != nil {
				vapi.Log("ret %s err", b.name)
				return false
			}
			vapi.Log("ret %s ok", b.name)
			wg.Add(1)
			go receiver(b)
			return true
		}
		nextEmpty := 0
		var emu sync.Mutex
		takeEmpty := func() *c07batch {
			emu.Lock()
			defer emu.Unlock()
			for ; nextEmpty < len(batches); nextEmpty++ {
				if !batches[nextEmpty].nonEmpty {
					nextEmpty++
					return batches[nextEmpty-1]
				}
			}
			return nil
		}
		runScript := func(who int, sc string) {
			defer wg.Done()
			nf := 0
			for _, op := range strings.Fields(sc) {
				switch op {
				case "F":
					nf++
					fl := fmt.Sprintf("Flush%d.%d", who, nf)
					vapi.Log("call %s", fl)
					err := eng.Flush(ctx)
					if err == nil {
						vapi.Log("ret %s ok", fl)
						barrier(fl, "call "+fl)
					} else {
						vapi.Log("ret %s err", fl)
					}
				case "E":
					ingest(takeEmpty())
				default:
					ingest(byName[op])
				}
			}
		}
		wg.Add(2)
		go runScript(1, first)
		go runScript(2, second)
		if p.gate != "" {
			// not waited for: a history may make fewer held calls than there are tokens, and the
			// releaser then stays parked on its next hand-over until the execution ends
			go func() {
				for i := 0; i < p.tokens; i++ {
					gate <- struct{}{}
				}
				close(gate)
			}()
		}
		// everything still buffered is flushed by Stop so that the receivers finish
		stopped := make(chan struct{})
		go func() {
			vapi.Quiesce()
			eng.Stop(ctx)
			close(stopped)
		}()
		wg.Wait()
		<-stopped
		// exactly one answer per accepted batch (C05): the receiver took one value; a second one
		// would be sitting in the channel now that the engine has stopped gracefully
		for _, b := range batches {
			if n := len(b.done); n > 0 {
				vapi.Fail("C05: batch %s was answered %d time(s) more than once", b.name, n)
			}
		}
	}
}

// c05Scripted: the scripted caller histories above, registered for C05 as well (the
// exactly-once oracle at the end of c07Root and deadlock detection for unanswered callers).
func c05Scripted(tier string) []Scenario {
	ps := []c07p{
		{rows: 1, first: "A F", second: "B", gate: "CreateFile", tokens: 2, ib: 1},
		{rows: 1, first: "A F B F", gate: "CreateFile", tokens: 2, ib: 1},
	}
	if tier == "thorough" {
		ps = append(ps, c07p{rows: 1, first: "A F", second: "B+Flush", gate: "CreateFile", tokens: 2, ib: 2},
			c07p{rows: 2, first: "A B F", second: "Flush", gate: "Update", tokens: 2, ib: 1},
			c07p{rows: 1, first: "A F F", second: "B", gate: "CreateFile", tokens: 3, ib: 1},
			c07p{rows: 1, first: "A E F", second: "B", gate: "Close", tokens: 2, ib: 1})
	}
	var out []Scenario
	for _, p := range ps {
		out = append(out, Scenario{Prop: "C05", Name: "scripted-" + p.name(), Root: c07Root(p), Horizon: time.Second, Sched: 1})
	}
	return out
}

func init() {
	Registry["C07"] = func(tier string) []Scenario {
		var ps []c07p
		if tier == "quick" {
			ps = []c07p{
				{rows: 1, second: "B+Flush", gate: "CreateFile", ib: 1},
				{rows: 2, second: "B+Flush", ib: 2},
				{rows: 0, second: "Flush", gate: "Update", ib: 1},
				{rows: 1, second: "E+Flush", ib: 1},
				{rows: 2, second: "B", gate: "Close", ib: 1},
				// multi-step histories of one caller around a store that admits one held call at a time
				{rows: 1, first: "A F B F", gate: "CreateFile", tokens: 2, ib: 1},
				// a Flush queued behind an in-flight flush while another caller's batch arrives
				{rows: 1, first: "A F", second: "B", gate: "CreateFile", tokens: 2, ib: 1},
				// a partition-level limit fires while another partition holds fewer rows
				{rows: 0, first: "A B", second: "", ib: 2, grp: 2},
				// unbuffered done channels: an answer is handed over only when its receiver arrives
				{rows: 2, second: "B+Flush", ib: 2, unbuf: true},
				{rows: 0, second: "Flush", ib: 1, unbuf: true},
			}
		} else {
			for _, rows := range []int{1, 2, 0} {
				for _, second := range []string{"B+Flush", "Flush", "B", "E+Flush"} {
					for _, gate := range []string{"", "CreateFile", "Update", "Close"} {
						for _, ib := range []int{1, 2} {
							ps = append(ps, c07p{rows: rows, second: second, gate: gate, ib: ib})
						}
					}
				}
			}
			for _, rows := range []int{1, 2, 0} {
				for _, second := range []string{"B+Flush", "Flush", "B"} {
					ps = append(ps, c07p{rows: rows, second: second, ib: 2, unbuf: true}, c07p{rows: rows, second: second, gate: "Update", ib: 1, unbuf: true})
				}
			}
			for _, first := range []string{"A B", "A B C", "A B F C"} {
				for _, second := range []string{"", "Flush", "D"} {
					sec := second
					if sec == "D" {
						sec = "B"
						first = strings.ReplaceAll(strings.ReplaceAll(first, "C", "D"), "B", "C")
					}
					ps = append(ps, c07p{rows: 0, first: first, second: sec, ib: 2, grp: 2}, c07p{rows: 4, first: first, second: sec, gate: "Update", tokens: 2, ib: 1, grp: 2})
				}
			}
			ps = append(ps, c07p{rows: 1, first: "A F", second: "B+Flush", gate: "CreateFile", tokens: 2, ib: 2},
				c07p{rows: 2, first: "A F B C F", gate: "Update", tokens: 2, ib: 1})
			for _, rows := range []int{1, 2} {
				for _, first := range []string{"A F B F", "A F F B F", "A B F C F", "A F B C F", "F A F B F", "A E F B F"} {
					for _, second := range []string{"", "Flush", "B+Flush"} {
						if second == "B+Flush" && strings.Contains(first, "B") {
							first = strings.ReplaceAll(strings.ReplaceAll(first, "C", "D"), "B", "C")
						}
						for _, gate := range []string{"CreateFile", "Update"} {
							for _, tokens := range []int{2, 3} {
								ps = append(ps, c07p{rows: rows, second: second, gate: gate, ib: 1, first: first, tokens: tokens})
							}
						}
					}
				}
			}
		}
		var out []Scenario
		for _, p := range ps {
			s := Scenario{Prop: "C07", Name: p.name(), Root: c07Root(p), Horizon: time.Second, Sched: 1}
			if tier == "thorough" && (p.first == "" || p.first == "A F B F") {
				s.Sched = 2 // the long scripted histories stay at one preemption
			}
			out = append(out, s)
		}
		return out
	}
}

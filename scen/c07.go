package scen

import (
	"context"
	"fmt"
	"sync"
	"time"

	bs "github.com/danthegoodman1/bloomsearch"

	"verif/hstore"
	"verif/vapi"
)

// C07 — acknowledgements respect acceptance order; Flush is a durability barrier.

type c07p struct {
	rows   int    // MaxBufferedRows (0 = large)
	second string // what the second caller does: "B+Flush" | "Flush" | "B" | "E+Flush" (E = empty batch)
	gate   string // store call held until a releaser task opens it: "" | "CreateFile" | "Update" | "Close"
	ib     int
}

func (p c07p) name() string {
	return fmt.Sprintf("rows%d-%s-gate_%s-ib%d", p.rows, p.second, p.gate, p.ib)
}

type c07batch struct {
	name     string
	ids      []string
	nonEmpty bool
	done     chan error
	got      vapi.Cell[error]
	recvd    vapi.Counter
}

func c07Root(p c07p) func() {
	return func() {
		data, meta := hstore.NewMemData(), hstore.NewMemMeta()
		gate := make(chan struct{})
		if p.gate != "" {
			h := &hstore.Hook{Enter: func(op, ptr string, n int) error {
				if op == p.gate {
					<-gate
				}
				return nil
			}}
			data.Hook, meta.Hook = h, h
		}
		cfg := baseConfig()
		cfg.IngestBufferSize = p.ib
		if p.rows > 0 {
			cfg.MaxBufferedRows = p.rows
		}
		eng, err := bs.NewBloomSearchEngine(cfg, meta, data)
		if err != nil {
			vapi.Fail("config: %v", err)
			return
		}
		eng.Start()
		ctx := context.Background()
		mk := func(name string, n int) *c07batch {
			b := &c07batch{name: name, nonEmpty: n > 0, done: make(chan error, 1)}
			for i := 0; i < n; i++ {
				b.ids = append(b.ids, fmt.Sprintf("%s%d", name, i))
			}
			return b
		}
		A, B := mk("A", 1), mk("B", 1)
		if p.second == "E+Flush" {
			B = mk("B", 0)
		}
		batches := []*c07batch{A, B}
		rowsOf := func(b *c07batch) []map[string]any {
			rows := []map[string]any{}
			for _, id := range b.ids {
				rows = append(rows, map[string]any{"id": id})
			}
			return rows
		}
		answered := func(b *c07batch) bool { return b.recvd.Load() > 0 || len(b.done) > 0 }
		// barrier: everything accepted before `call` (a log line) must already be answered,
		// and what was answered nil must be visible.
		barrier := func(what, call string) {
			log := vapi.LogSnapshot()
			ci := logIndex(log, call)
			vis := map[string]int(nil)
			for _, y := range batches {
				if !y.nonEmpty || "call "+y.name == call {
					continue
				}
				ri := logIndex(log, "ret "+y.name+" ok")
				if ri < 0 || ri > ci {
					continue
				}
				if !answered(y) {
					vapi.Fail("C07: %s completed with nil although batch %s, accepted before %q, has not been answered", what, y.name, call)
					continue
				}
				if v, ok := y.got.Get(); ok && v == nil {
					if vis == nil {
						vis = visibleIDs(meta, data)
					}
					for _, id := range y.ids {
						if vis[id] == 0 {
							vapi.Fail("C07: %s completed with nil, batch %s (accepted earlier) was answered nil, but its row %s is not committed", what, y.name, id)
						}
					}
				}
			}
		}
		var wg sync.WaitGroup
		receiver := func(b *c07batch) {
			defer wg.Done()
			v := <-b.done
			b.got.Set(v)
			b.recvd.Add(1)
			if v == nil && b.nonEmpty {
				vis := visibleIDs(meta, data)
				for _, id := range b.ids {
					if vis[id] != 1 {
						vapi.Fail("C07/C06: batch %s answered nil but row %s is committed %d times", b.name, id, vis[id])
					}
				}
				barrier("ack of "+b.name, "call "+b.name)
			}
		}
		ingest := func(b *c07batch) bool {
			vapi.Log("call %s", b.name)
			err := eng.IngestRows(ctx, rowsOf(b), b.done)
			if err != nil {
				vapi.Log("ret %s err", b.name)
				return false
			}
			vapi.Log("ret %s ok", b.name)
			wg.Add(1)
			go receiver(b)
			return true
		}
		wg.Add(2)
		go func() { defer wg.Done(); ingest(A) }()
		go func() {
			defer wg.Done()
			if p.second != "Flush" {
				ingest(B)
			}
			if p.second != "B" {
				vapi.Log("call Flush")
				err := eng.Flush(ctx)
				if err == nil {
					vapi.Log("ret Flush ok")
					barrier("Flush", "call Flush")
				} else {
					vapi.Log("ret Flush err")
				}
			}
		}()
		if p.gate != "" {
			wg.Add(1)
			go func() { defer wg.Done(); close(gate) }()
		}
		// everything still buffered is flushed by Stop so that the receivers finish
		stopped := make(chan struct{})
		go func() {
			vapi.Quiesce()
			eng.Stop(ctx)
			close(stopped)
		}()
		wg.Wait()
		<-stopped
	}
}

func init() {
	Registry["C07"] = func(tier string) []Scenario {
		var ps []c07p
		if tier == "quick" {
			ps = []c07p{
				{1, "B+Flush", "CreateFile", 1},
				{2, "B+Flush", "", 2},
				{0, "Flush", "Update", 1},
				{1, "E+Flush", "", 1},
				{2, "B", "Close", 1},
			}
		} else {
			for _, rows := range []int{1, 2, 0} {
				for _, second := range []string{"B+Flush", "Flush", "B", "E+Flush"} {
					for _, gate := range []string{"", "CreateFile", "Update", "Close"} {
						for _, ib := range []int{1, 2} {
							ps = append(ps, c07p{rows, second, gate, ib})
						}
					}
				}
			}
		}
		var out []Scenario
		for _, p := range ps {
			s := Scenario{Prop: "C07", Name: p.name(), Root: c07Root(p), Horizon: time.Second, Sched: 1}
			if tier == "thorough" {
				s.Sched = 2
			}
			out = append(out, s)
		}
		return out
	}
}

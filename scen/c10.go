package scen

import (
	"context"
	"encoding/json"
	"fmt"
	"time"

	bs "github.com/danthegoodman1/bloomsearch"

	"verif/hstore"
	"verif/vapi"
)

// C10 — buffered rows are flushed without Flush or Stop: immediately once a limit is
// reached, otherwise within MaxBufferedTime plus one ticker period (virtual time).

type c10p struct {
	bufRows, bufBytes, grpRows, grpBytes int // 0 = unlimited
	maxTime                              time.Duration
	shape                                string
	gap                                  time.Duration // virtual delay between batches
	comp                                 bs.CompressionType // "" = the scenarios' base configuration
}

func (p c10p) name() string {
	n := fmt.Sprintf("br%d-bb%d-gr%d-gb%d-t%dms-%s-gap%dms", p.bufRows, p.bufBytes, p.grpRows, p.grpBytes, p.maxTime/time.Millisecond, p.shape, p.gap/time.Millisecond)
	if p.comp != "" {
		n += "-" + string(p.comp)
	}
	return n
}

func c10Batches(shape string) [][]map[string]any {
	big := ""
	for i := 0; i < 30; i++ {
		big += "0123456789"
	}
	switch shape {
	case "single":
		return [][]map[string]any{{{"id": "a", "p": "x"}}}
	case "two-same":
		return [][]map[string]any{{{"id": "a", "p": "x"}}, {{"id": "b", "p": "x"}}}
	case "two-parts":
		return [][]map[string]any{{{"id": "a", "p": "x"}, {"id": "b", "p": "y"}}, {{"id": "c", "p": "y"}}}
	case "many-parts":
		return [][]map[string]any{{{"id": "a", "p": "p1"}, {"id": "b", "p": "p2"}, {"id": "c", "p": "p3"}}, {{"id": "d", "p": "p4"}}}
	case "oversized":
		return [][]map[string]any{{{"id": "a", "p": "x"}}, {{"id": "big", "p": "x", "v": big}}}
	case "seq3", "seq4", "seq5", "seq4-alt":
		// single-row batches in a row: a limit flush in the middle leaves a younger batch
		// behind that only the time trigger can flush
		n := int(shape[3] - '0')
		var out [][]map[string]any
		for i := 0; i < n; i++ {
			part := "x"
			if shape == "seq4-alt" && i%2 == 1 {
				part = "y"
			}
			out = append(out, []map[string]any{{"id": fmt.Sprintf("s%d", i), "p": part}})
		}
		return out
	case "hot-cold", "cold-hot":
		// one batch spanning a partition that reaches its row-group limit and partitions that do
		// not; the hot partition sorts first ("hot-cold") or last ("cold-hot") — the controlled
		// build walks maps in key order
		hot, cold := "a-hot", "z-cold"
		if shape == "cold-hot" {
			hot, cold = "z-hot", "a-cold"
		}
		return [][]map[string]any{{{"id": "h0", "p": hot}, {"id": "h1", "p": hot}, {"id": "c0", "p": cold}, {"id": "c1", "p": cold + "2"}}}
	case "mixed":
		return [][]map[string]any{{{"id": "a", "p": "x"}}, {}, {{"id": "bad", "f": func() {}}}, {{"id": "b", "p": "y"}}}
	}
	return nil
}

func c10Root(p c10p) func() {
	return func() {
		data, meta := hstore.NewMemData(), hstore.NewMemMeta()
		cfg := baseConfig()
		cfg.PartitionFunc = func(r map[string]any) string { s, _ := r["p"].(string); return s }
		cfg.MaxBufferedTime = p.maxTime
		if p.comp != "" {
			cfg.RowDataCompression = p.comp
		}
		if p.bufRows > 0 {
			cfg.MaxBufferedRows = p.bufRows
		}
		if p.bufBytes > 0 {
			cfg.MaxBufferedBytes = p.bufBytes
		}
		if p.grpRows > 0 {
			cfg.MaxRowGroupRows = p.grpRows
		}
		if p.grpBytes > 0 {
			cfg.MaxRowGroupBytes = p.grpBytes
		}
		eng, err := bs.NewBloomSearchEngine(cfg, meta, data)
		if err != nil {
			vapi.Fail("config: %v", err)
			return
		}
		eng.Start()
		ctx := context.Background()
		// reference counters, reset whenever everything buffered has been answered
		rows, bytes := 0, 0
		partRows, partBytes := map[string]int{}, map[string]int{}
		type pend struct {
			name string
			done chan error
			at   time.Time
		}
		var pending []pend
		allAnswered := func() bool {
			for _, q := range pending {
				if len(q.done) == 0 {
					return false
				}
			}
			return true
		}
		reset := func() {
			rows, bytes = 0, 0
			partRows, partBytes = map[string]int{}, map[string]int{}
			pending = nil
		}
		for bi, batch := range c10Batches(p.shape) {
			if bi > 0 && p.gap > 0 {
				time.Sleep(p.gap)
				vapi.Quiesce()
				if allAnswered() {
					reset()
				}
			}
			name := fmt.Sprintf("batch%d", bi)
			done := make(chan error, 1)
			if err := eng.IngestRows(ctx, batch, done); err != nil {
				vapi.Fail("C10: IngestRows: %v", err)
				return
			}
			bad := false
			add := 0
			for _, r := range batch {
				b, err := json.Marshal(r)
				if err != nil {
					bad = true
					break
				}
				add += len(b) + 4
			}
			if bad || len(batch) == 0 {
				// answered at once, with an error or nil; carries no rows
				vapi.Quiesce()
				if len(done) != 1 {
					vapi.Fail("C10: %s batch %s not answered without waiting", map[bool]string{true: "rejected", false: "empty"}[bad], name)
				}
				continue
			}
			for _, r := range batch {
				b, _ := json.Marshal(r)
				pid, _ := r["p"].(string)
				partRows[pid]++
				partBytes[pid] += len(b) + 4
				rows++
				bytes += len(b) + 4
			}
			pending = append(pending, pend{name, done, time.Now()})
			limit := rows >= cfg.MaxBufferedRows || bytes >= cfg.MaxBufferedBytes
			for pid := range partRows {
				if partRows[pid] >= cfg.MaxRowGroupRows || partBytes[pid] >= cfg.MaxRowGroupBytes {
					limit = true
				}
			}
			vapi.Quiesce()
			if limit {
				for _, q := range pending {
					if len(q.done) != 1 {
						vapi.Fail("C10: a limit was reached after %s (buffered rows=%d bytes=%d, per partition rows=%v bytes=%v; limits rows=%d bytes=%d group rows=%d group bytes=%d) but batch %s was not answered without waiting for a timer", name, rows, bytes, partRows, partBytes, cfg.MaxBufferedRows, cfg.MaxBufferedBytes, cfg.MaxRowGroupRows, cfg.MaxRowGroupBytes, q.name)
					}
				}
				reset()
			}
		}
		if len(pending) > 0 {
			first := pending[0].at
			wait := first.Add(p.maxTime + 100*time.Millisecond).Sub(time.Now())
			time.Sleep(wait)
			vapi.Quiesce()
			for _, q := range pending {
				if len(q.done) != 1 {
					vapi.Fail("C10: batch %s accepted at %v is still unanswered at %v (MaxBufferedTime=%v plus one 100ms ticker period), with responsive stores and no Flush/Stop", q.name, q.at.Sub(first), time.Since(first), p.maxTime)
				} else if err := <-q.done; err != nil {
					vapi.Fail("C10: batch %s answered with error %v on healthy stores", q.name, err)
				}
			}
		}
	}
}

func init() {
	Registry["C10"] = func(tier string) []Scenario {
		var ps []c10p
		shapes := []string{"single", "two-same", "two-parts", "many-parts", "oversized", "mixed", "seq3", "seq4", "seq5", "seq4-alt", "hot-cold", "cold-hot"}
		limits := [][4]int{{0, 0, 0, 0}, {2, 0, 0, 0}, {0, 60, 0, 0}, {0, 0, 2, 0}, {0, 0, 0, 60}, {3, 0, 2, 0}, {2, 400, 3, 300}}
		times := []time.Duration{10 * time.Millisecond, 100 * time.Millisecond, 250 * time.Millisecond}
		gaps := []time.Duration{0, 50 * time.Millisecond}
		if tier == "thorough" {
			gaps = append(gaps, 120*time.Millisecond)
		}
		for si, sh := range shapes {
			for li, l := range limits {
				for ti, t := range times {
					for gi, g := range gaps {
						_, _, _, _ = si, li, ti, gi
						ps = append(ps, c10p{l[0], l[1], l[2], l[3], t, sh, g, ""})
						// byte limits count what was ingested, not what a streaming encoder has emitted so far
						if (l[1] > 0 || l[3] > 0) && (ti == 1 || tier == "thorough") {
							for _, c := range []bs.CompressionType{bs.CompressionNone, bs.CompressionSnappy, bs.CompressionZstd} {
								ps = append(ps, c10p{l[0], l[1], l[2], l[3], t, sh, g, c})
							}
						}
					}
				}
			}
		}
		var out []Scenario
		for _, p := range ps {
			s := Scenario{Prop: "C10", Name: p.name(), Root: c10Root(p), Horizon: 2 * time.Second, Sched: 2, LazyTime: true}
			out = append(out, s)
		}
		return out
	}
}

package scen

import (
	"context"
	"errors"
	"fmt"
	"sync"
	"time"

	bs "github.com/danthegoodman1/bloomsearch"

	"verif/hstore"
	"verif/vapi"
)

// C09 — bounded backpressure: with a stalled store the number of accepted but unanswered
// batches stays below a bound that depends only on the configuration.

type c09p struct {
	wedge     string // store call that never returns: CreateFile | Write | Close | Update
	ib, rows  int
	producers int
	// trickle > 0: no size limit ever triggers; the producers pause this long (virtual time)
	// between batches, so every flush is started by the MaxBufferedTime clock
	trickle time.Duration
	// parts: every batch lands in a partition of its own (PartitionFunc = the row's id)
	parts bool
	// empties: each producer's first batch has a row, all later ones are empty (they carry a
	// done channel and must be answered at once: nothing of theirs can wait for a flush)
	empties bool
}

func (p c09p) name() string {
	n := fmt.Sprintf("wedge_%s-ib%d-rows%d-p%d", p.wedge, p.ib, p.rows, p.producers)
	if p.trickle > 0 {
		n += fmt.Sprintf("-trickle%dms", p.trickle/time.Millisecond)
	}
	if p.parts {
		n += "-parts"
	}
	if p.empties {
		n += "-empties"
	}
	return n
}

func c09Root(p c09p) func() {
	return func() {
		data, meta := hstore.NewMemData(), hstore.NewMemMeta()
		never := make(chan struct{})
		h := &hstore.Hook{Enter: func(op, ptr string, n int) error {
			if op == p.wedge {
				<-never
			}
			return nil
		}}
		data.Hook, meta.Hook = h, h
		cfg := baseConfig()
		cfg.IngestBufferSize = p.ib
		cfg.MaxBufferedRows = p.rows
		if p.trickle > 0 {
			cfg.MaxBufferedRows = 1 << 20
			cfg.MaxBufferedTime = 50 * time.Millisecond
		}
		if p.parts {
			cfg.PartitionFunc = func(row map[string]any) string { return fmt.Sprint(row["id"]) }
		}
		eng, err := bs.NewBloomSearchEngine(cfg, meta, data)
		if err != nil {
			vapi.Fail("config: %v", err)
			return
		}
		eng.Start()
		// one flush request carries at most `rows` single-row batches; the pipeline holds one
		// request being written, one queued, one held by the ingest actor, plus the buffer
		perFlush := p.rows
		if p.trickle > 0 {
			// a time-triggered flush carries what arrived within one MaxBufferedTime window plus
			// a ticker period (150 ms < the producers' pause): at most one batch per producer
			perFlush = p.producers
		}
		bound := p.ib + 4*perFlush
		per := (bound+4)/p.producers + 1
		ctx, cancel := context.WithCancel(context.Background())
		defer cancel()
		var accepted vapi.Counter
		var dones []chan error
		for i := 0; i < p.producers*per; i++ {
			dones = append(dones, make(chan error, 1))
		}
		unanswered := func() int {
			n := int(accepted.Load())
			for _, d := range dones {
				n -= len(d)
			}
			return n
		}
		var wg sync.WaitGroup
		for pi := 0; pi < p.producers; pi++ {
			wg.Add(1)
			go func(pi int) {
				defer wg.Done()
				for k := 0; k < per; k++ {
					if p.trickle > 0 && k > 0 {
						time.Sleep(p.trickle)
					}
					d := dones[pi*per+k]
					rows := []map[string]any{{"id": fmt.Sprintf("p%dk%d", pi, k)}}
					if p.empties && k > 0 {
						rows = nil
					}
					if err := eng.IngestRows(ctx, rows, d); err != nil {
						return
					}
					accepted.Add(1)
					if u := unanswered(); u > bound {
						vapi.Fail("C09: %d batches accepted and unanswered with the store stalled at %s; configuration bound is %d (IngestBufferSize=%d, %d batch(es) per flush)", u, p.wedge, bound, p.ib, perFlush)
						return
					}
				}
			}(pi)
		}
		if p.trickle > 0 {
			time.Sleep(time.Duration(per+2) * p.trickle)
		}
		vapi.Quiesce()
		if !p.empties && int(accepted.Load()) >= p.producers*per {
			vapi.Fail("C09: all %d offered batches were accepted although the store is stalled (no backpressure)", p.producers*per)
		}
		// a Flush caller arriving at the saturated pipeline blocks like a producer and fails with
		// its context error too
		var flushErr vapi.Cell[error]
		flushErr.Set(context.Canceled)
		if !p.empties { // (there the pipeline is not saturated: Flush would be enqueued and wait for the stalled store)
			wg.Add(1)
			go func() {
				defer wg.Done()
				flushErr.Set(eng.Flush(ctx))
			}()
			vapi.Quiesce()
		}
		cancel() // blocked producers must now fail with their context error
		wg.Wait()
		if e, _ := flushErr.Get(); !errors.Is(e, context.Canceled) {
			vapi.Fail("C09: Flush called on the saturated pipeline returned %v after its context was cancelled, want context.Canceled", e)
		}
	}
}

func init() {
	Registry["C09"] = func(tier string) []Scenario {
		var ps []c09p
		if tier == "quick" {
			for _, w := range []string{"CreateFile", "Write", "Close", "Update"} {
				ps = append(ps, c09p{w, 1, 1, 2, 0, false, false})
			}
			ps = append(ps, c09p{"Update", 2, 2, 2, 0, false, false})
			// empty batches behind a buffered row (rows limit 2: the one real row never triggers a flush)
			ps = append(ps, c09p{"CreateFile", 1, 2, 1, 0, false, true}, c09p{"Update", 2, 2, 1, 0, false, true})
			// every batch in a new partition
			ps = append(ps, c09p{"CreateFile", 1, 1, 2, 0, true, false}, c09p{"Update", 2, 2, 2, 0, true, false})
			// time-triggered flushes only: each producer's batches arrive one ticker period apart
			ps = append(ps, c09p{"CreateFile", 1, 1, 1, 250 * time.Millisecond, false, false}, c09p{"Update", 1, 1, 2, 250 * time.Millisecond, false, false})
		} else {
			for _, w := range []string{"CreateFile", "Write", "Close", "Update"} {
				for _, np := range []int{1, 2} {
					for _, gap := range []time.Duration{120 * time.Millisecond, 250 * time.Millisecond} {
						ps = append(ps, c09p{w, 1, 1, np, gap, false, false})
					}
				}
			}
			for _, w := range []string{"CreateFile", "Write", "Close", "Update"} {
				for _, ib := range []int{1, 2} {
					for _, rows := range []int{1, 2} {
						for _, np := range []int{2, 3} {
							ps = append(ps, c09p{w, ib, rows, np, 0, false, false})
							if np == 2 {
								ps = append(ps, c09p{w, ib, rows, np, 0, true, false})
								if rows == 2 {
									ps = append(ps, c09p{w, ib, rows, 1, 0, false, true})
								}
							}
						}
					}
				}
			}
		}
		var out []Scenario
		for _, p := range ps {
			s := Scenario{Prop: "C09", Name: p.name(), Root: c09Root(p), Horizon: 300 * time.Millisecond, Sched: 1}
			if p.trickle > 0 {
				s.Horizon, s.LazyTime = 30*time.Second, true
			}
			if tier == "thorough" && p.producers == 2 {
				s.Sched = 2
			}
			out = append(out, s)
		}
		return out
	}
}

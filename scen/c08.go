package scen

import (
	"context"
	"errors"
	"fmt"
	"strings"
	"sync"
	"time"

	bs "github.com/danthegoodman1/bloomsearch"

	"verif/hstore"
	"verif/vapi"
)

// C08 — Stop refuses new work, drains, and obeys its deadline.

type c08p struct {
	ctx       string // bg | deadline | expired | custom
	wedge     string // "" | CreateFile | Update | Close : store call held until main releases it after Stop returned
	honor     bool   // the wedged store call returns ctx.Err() once its context is cancelled
	producers int
	ib        int
	abandoned bool // producer 1's done channel is unbuffered and nobody receives
	// backlog > 2: producer 0 makes this many calls in a row (enough to fill the flush worker,
	// the flush queue, the ingest actor and the ingest buffer, so that the other producers
	// block inside IngestRows while Stop runs)
	backlog int
	// flusher: one more task calls Flush concurrently with the producers and Stop
	flusher bool
	// rows: MaxBufferedRows (default 1): with 2, two batches share one flush request, so a
	// request carries several waiters
	rows int
	// kind of producer 0's first batch: "" one valid row | "empty" | "nilrow" (accepted, then
	// answered by the ingest worker itself: nil for an empty batch, an error for a rejected one)
	kind string
}

func (p c08p) name() string {
	n := fmt.Sprintf("ctx_%s-wedge_%s-honor_%v-p%d-ib%d-abandoned_%v", p.ctx, p.wedge, p.honor, p.producers, p.ib, p.abandoned)
	if p.backlog > 2 {
		n += fmt.Sprintf("-backlog%d", p.backlog)
	}
	if p.flusher {
		n += "-flusher"
	}
	if p.rows > 1 {
		n += fmt.Sprintf("-rows%d", p.rows)
	}
	if p.kind != "" {
		n += "-" + p.kind
	}
	return n
}

// customCtx is a context implementation the engine knows nothing about: Done closes when
// the harness says so, AfterFunc callbacks are attached by a watcher task.
type customCtx struct {
	done chan struct{}
	err  vapi.Cell[error]
}

func (c *customCtx) Deadline() (time.Time, bool) { return time.Time{}, false }
func (c *customCtx) Done() <-chan struct{}       { return c.done }
func (c *customCtx) Err() error                  { e, _ := c.err.Get(); return e }
func (c *customCtx) Value(any) any               { return nil }

const c08Deadline = 100 * time.Millisecond

func c08Root(p c08p) func() {
	return func() {
		data, meta := hstore.NewMemData(), hstore.NewMemMeta()
		gate := make(chan struct{})
		h := &hstore.Hook{}
		h.EnterCtx = func(ctx context.Context, op, ptr string, n int) error {
			if op == "CreateFile" || op == "Update" {
				vapi.Log("enter %s", op)
			}
			if op == p.wedge {
				if p.honor {
					select {
					case <-gate:
					case <-ctx.Done():
						return ctx.Err()
					}
				} else {
					<-gate
				}
			}
			return nil
		}
		h.Enter = func(op, ptr string, n int) error {
			if op == p.wedge {
				<-gate
			}
			return nil
		}
		data.Hook, meta.Hook = h, h
		cfg := baseConfig()
		cfg.IngestBufferSize = p.ib
		cfg.MaxBufferedRows = 1
		if p.rows > 1 {
			cfg.MaxBufferedRows = p.rows
		}
		eng, err := bs.NewBloomSearchEngine(cfg, meta, data)
		if err != nil {
			vapi.Fail("config: %v", err)
			return
		}
		eng.Start()
		bg := context.Background()
		type rec struct {
			name     string
			done     chan error
			accepted vapi.Cell[bool]
			rows     []map[string]any
		}
		var recs []*rec
		var wg sync.WaitGroup
		produce := func(name string, unbuf bool) *rec {
			r := &rec{name: name, rows: []map[string]any{{"id": name}}}
			if unbuf {
				r.done = make(chan error)
			} else {
				r.done = make(chan error, 1)
			}
			return r
		}
		call := func(r *rec) error {
			vapi.Log("call %s", r.name)
			err := eng.IngestRows(bg, r.rows, r.done)
			switch {
			case err == nil:
				vapi.Log("ret %s ok", r.name)
				r.accepted.Set(true)
			case errors.Is(err, bs.ErrEngineStopped):
				vapi.Log("ret %s stopped", r.name)
			default:
				vapi.Log("ret %s err", r.name)
			}
			return err
		}
		for i := 0; i < p.producers; i++ {
			r1 := produce(fmt.Sprintf("P%da", i), p.abandoned && i == 0)
			r2 := produce(fmt.Sprintf("P%db", i), false)
			if i == 0 && p.kind == "empty" {
				r1.rows = []map[string]any{}
			}
			if i == 0 && p.kind == "nilrow" {
				r1.rows = []map[string]any{nil}
			}
			recs = append(recs, r1, r2)
			var more []*rec
			if i == 0 {
				for k := 2; k < p.backlog; k++ {
					more = append(more, produce(fmt.Sprintf("P%d%c", i, 'a'+k), false))
				}
				recs = append(recs, more...)
			}
			wg.Add(1)
			two := i == 0
			go func() {
				defer wg.Done()
				e1 := call(r1)
				if two {
					e2 := call(r2)
					if errors.Is(e1, bs.ErrEngineStopped) && !errors.Is(e2, bs.ErrEngineStopped) {
						vapi.Fail("C08: IngestRows returned ErrEngineStopped and a later call by the same caller returned %v", e2)
					}
					prev := e2
					for _, r := range more {
						e := call(r)
						if errors.Is(prev, bs.ErrEngineStopped) && !errors.Is(e, bs.ErrEngineStopped) {
							vapi.Fail("C08: IngestRows returned ErrEngineStopped and a later call by the same caller returned %v", e)
						}
						prev = e
					}
				}
			}()
		}
		if p.flusher {
			wg.Add(1)
			go func() {
				defer wg.Done()
				vapi.Log("call Flush")
				err := eng.Flush(bg)
				switch {
				case err == nil:
					vapi.Log("ret Flush ok")
				case errors.Is(err, bs.ErrEngineStopped):
					vapi.Log("ret Flush stopped")
				default:
					vapi.Log("ret Flush err")
				}
			}()
		}
		var stopCtx context.Context = bg
		var cancel context.CancelFunc
		switch p.ctx {
		case "deadline":
			stopCtx, cancel = context.WithTimeout(bg, c08Deadline)
			defer cancel()
		case "expired":
			stopCtx, cancel = context.WithTimeout(bg, 0)
			defer cancel()
		case "custom":
			cc := &customCtx{done: make(chan struct{})}
			stopCtx = cc
			wg.Add(1)
			go func() {
				defer wg.Done()
				cc.err.Set(context.DeadlineExceeded)
				vapi.Log("custom ctx done")
				close(cc.done)
			}()
		}
		answered := func(r *rec) bool { return len(r.done) > 0 }
		var stopErr vapi.Cell[error]
		wg.Add(1)
		go func() {
			defer wg.Done()
			vapi.Log("call Stop")
			err := eng.Stop(stopCtx)
			if err == nil {
				vapi.Log("ret Stop nil")
				for _, r := range recs {
					if a, _ := r.accepted.Get(); a && cap(r.done) > 0 && !answered(r) {
						vapi.Fail("C08: Stop returned nil but accepted batch %s has not been answered", r.name)
					}
					// nobody ever receives from an abandoned (unbuffered) channel: its batch cannot
					// have been answered, so a nil return is never right once it was accepted
					if a, _ := r.accepted.Get(); a && cap(r.done) == 0 {
						vapi.Fail("C08: Stop returned nil but accepted batch %s (unbuffered done channel, no receiver yet) has not been answered", r.name)
					}
				}
			} else {
				vapi.Log("ret Stop err")
			}
			stopErr.Set(err)
			if p.wedge != "" {
				close(gate) // the wedged store call is released only once Stop has returned
			}
		}()
		wg.Wait()
		// calls that begin after Stop returned must be refused
		late := produce("late", false)
		if err := call(late); !errors.Is(err, bs.ErrEngineStopped) {
			vapi.Fail("C08: IngestRows after Stop returned gives %v, want ErrEngineStopped", err)
		}
		if err := eng.Flush(bg); !errors.Is(err, bs.ErrEngineStopped) {
			vapi.Fail("C08: Flush after Stop returned gives %v, want ErrEngineStopped", err)
		}
		vapi.Quiesce()
		serr, _ := stopErr.Get()
		log := vapi.LogSnapshot()
		// monotone refusal across callers: a call that begins after some call that itself began
		// after "call Stop" returned ErrEngineStopped must be refused as well
		firstRefusedRet := -1
		for i, l := range log {
			if strings.HasPrefix(l, "ret ") && strings.HasSuffix(l, " stopped") {
				firstRefusedRet = i
				break
			}
		}
		if firstRefusedRet >= 0 {
			for i := firstRefusedRet + 1; i < len(log); i++ {
				if strings.HasPrefix(log[i], "call P") || log[i] == "call late" || log[i] == "call Flush" {
					name := strings.TrimPrefix(log[i], "call ")
					if logIndex(log, "ret "+name+" ok") >= 0 {
						vapi.Fail("C08: call %s began after another call had already been refused with ErrEngineStopped, yet it was accepted", name)
					}
				}
			}
		}
		// (f) Flush returned nil: every batch accepted before that Flush call began was flushed by a
		// request queued ahead of Flush's own, and in these scenarios (no store errors, only Stop's
		// cancellation) a request can fail only after the cancellation — after which no later
		// request is answered nil. So none of those batches can hold an error.
		if fi := logIndex(log, "call Flush"); fi >= 0 && logIndex(log, "ret Flush ok") >= 0 {
			for _, r := range recs {
				ai := logIndex(log, "ret "+r.name+" ok")
				if ai < 0 || ai > fi || cap(r.done) == 0 || len(r.done) != 1 {
					continue
				}
				v := <-r.done
				r.done <- v
				if v != nil {
					vapi.Fail("C08: Flush returned nil although batch %s, accepted before Flush was called, was answered with an error (%v): a waiter behind an abandoned flush received success", r.name, v)
				}
			}
		}
		if serr != nil {
			ri := logIndex(log, "ret Stop err")
			// (d) no new unit of store work begins after Stop returned its deadline error
			inFlight := false // a CreateFile began before Stop returned and its Update has not begun yet
			for i, l := range log {
				if i < ri {
					if l == "enter CreateFile" {
						inFlight = true
					}
					if l == "enter Update" {
						inFlight = false
					}
					continue
				}
				if l == "enter CreateFile" {
					vapi.Fail("C08: a flush called CreateFile after Stop had returned its deadline error")
				}
				if l == "enter Update" {
					if !inFlight {
						vapi.Fail("C08: a flush called MetaStore.Update after Stop had returned its deadline error (and no flush was in flight when Stop returned)")
					}
					inFlight = false
				}
			}
			// (e) every waiter that can still receive got an answer, not silence
			for _, r := range recs {
				if a, _ := r.accepted.Get(); a && cap(r.done) > 0 && len(r.done) != 1 {
					vapi.Fail("C08: after Stop returned a deadline error and the stores were released, accepted batch %s holds %d answers (want exactly 1)", r.name, len(r.done))
				}
			}
		} else {
			for _, r := range recs {
				if a, _ := r.accepted.Get(); a && cap(r.done) > 0 && len(r.done) != 1 {
					vapi.Fail("C08: after a graceful Stop accepted batch %s holds %d answers", r.name, len(r.done))
				}
			}
		}
	}
}

func init() {
	Registry["C08"] = func(tier string) []Scenario {
		var ps []c08p
		if tier == "quick" {
			ps = []c08p{
				{"bg", "", false, 2, 1, false, 0, false, 0, ""},
				{"deadline", "CreateFile", false, 2, 1, false, 0, false, 0, ""},
				{"deadline", "Update", true, 2, 1, false, 0, false, 0, ""},
				{"expired", "CreateFile", false, 2, 2, false, 0, false, 0, ""},
				{"deadline", "", false, 2, 1, true, 0, false, 0, ""},
				// a saturated pipeline: callers blocked inside IngestRows when Stop begins
				{"deadline", "CreateFile", false, 2, 1, false, 4, false, 0, ""},
				// two waiters per flush request, the first one abandoned
				{ctx: "deadline", producers: 2, ib: 2, abandoned: true, rows: 2},
				// answers the ingest worker sends itself (empty and rejected batches)
				{ctx: "deadline", producers: 2, ib: 1, abandoned: true, kind: "empty"},
				{ctx: "deadline", producers: 2, ib: 1, abandoned: true, kind: "nilrow"},
				// Flush racing Stop
				{"bg", "", false, 1, 1, false, 0, true, 0, ""},
				{"deadline", "CreateFile", false, 1, 2, false, 0, true, 0, ""},
			}
		} else {
			for _, c := range []string{"bg", "deadline", "expired", "custom"} {
				for _, w := range []string{"", "CreateFile", "Update", "Close"} {
					if c == "bg" && w != "" {
						continue // documented: Stop(Background) waits indefinitely behind a wedged pipeline
					}
					for _, honor := range []bool{false, true} {
						if honor && (w == "" || w == "Close") {
							continue
						}
						for _, np := range []int{2, 3} {
							for _, ib := range []int{1, 2} {
								ps = append(ps, c08p{c, w, honor, np, ib, false, 0, false, 0, ""})
							}
						}
					}
				}
				if c != "bg" {
					for _, k := range []string{"empty", "nilrow"} {
						ps = append(ps, c08p{ctx: c, producers: 2, ib: 1, abandoned: true, kind: k}, c08p{ctx: c, producers: 2, ib: 2, abandoned: true, kind: k},
							c08p{ctx: c, wedge: "CreateFile", producers: 2, ib: 1, abandoned: true, kind: k})
					}
					ps = append(ps, c08p{ctx: c, producers: 2, ib: 2, abandoned: true, rows: 2}, c08p{ctx: c, wedge: "Update", producers: 2, ib: 1, abandoned: true, rows: 2},
						c08p{ctx: c, producers: 3, ib: 2, abandoned: true, rows: 3})
				}
				if c == "bg" {
					ps = append(ps, c08p{c, "", false, 1, 1, false, 0, true, 0, ""}, c08p{c, "", false, 2, 2, false, 0, true, 0, ""})
				}
				if c != "bg" {
					ps = append(ps, c08p{c, "", false, 2, 1, true, 0, false, 0, ""}, c08p{c, "CreateFile", false, 2, 1, true, 0, false, 0, ""},
						c08p{c, "", false, 1, 1, false, 0, true, 0, ""}, c08p{c, "CreateFile", false, 2, 1, false, 0, true, 0, ""}, c08p{c, "Update", true, 1, 2, false, 0, true, 0, ""})
					for _, bl := range []int{4, 5} {
						ps = append(ps, c08p{c, "CreateFile", false, 2, 1, false, bl, false, 0, ""}, c08p{c, "Update", true, 2, 1, false, bl, false, 0, ""},
							c08p{c, "", false, 2, 1, true, bl, false, 0, ""}, c08p{c, "CreateFile", false, 3, 1, false, bl, false, 0, ""})
					}
				}
			}
		}
		var out []Scenario
		for _, p := range ps {
			s := Scenario{Prop: "C08", Name: p.name(), Root: c08Root(p), Horizon: c08Deadline, Sched: 1}
			if tier == "thorough" && p.producers <= 2 {
				s.Sched = 2
			}
			out = append(out, s)
		}
		return out
	}
}

"""Per-property check configuration: which engine parts decide the property, the level
claimed and the standing assumptions. MANIFEST.json is generated from this table by
tools/gen_manifest.py so that the two cannot drift."""

COMMON_SCHED = [
    "all inter-task communication of the explored code goes through the shimmed primitives (chan/select/sync/atomic/context/time) or is ordered by them (data-race freedom); checked separately by a free-running -race pass, which is sampling and not the deciding step",
    "context cancellation of a context and its descendants is one atomic step; time is virtual and advances only at quiescence or as an explicit deviation",
    "map iteration order is replaced by sorted-key order and sync.Pool by a deterministic LIFO pool",
]

PROPS = {
    "C05": {
        "title": "Every accepted batch is answered exactly once",
        "level": "model_checking",
        "technique": "stateless model checking of the real engine goroutines under a controlled scheduler (preemption-bounded DFS with trace-equivalence pruning)",
        "parts": [{"engine": "sched", "family": "C05"}],
        "budget": {"quick": 300, "thorough": 1200},
        "design_ref": "§5 C05, §2.2",
        "text": "exhaustive exploration of every interleaving (within the stated deviation bound) of concurrent IngestRows/Flush/Start/Stop callers around the real engine, with at most one injected store fault; each execution is checked for exactly-one answers on every accepted done channel",
        "note": "bounded: 2 producers x <=2 batches, deviation bound 1 (quick) / 2 (thorough); shim runtime semantics as pinned by the litmus tests",
        "assumptions": COMMON_SCHED,
    },
}

def _sched(pid, title, text, note, budget=None, extra=None):
    PROPS[pid] = {"title": title, "level": "model_checking",
                  "technique": "stateless model checking of the real engine goroutines under a controlled scheduler (deviation-bounded DFS over schedules, select choices, timer firings and injected faults, with trace-equivalence pruning)",
                  "parts": [{"engine": "sched", "family": pid}] + (extra or []),
                  "budget": budget or {"quick": 300, "thorough": 1500}, "design_ref": "§5 " + pid + ", §2.2",
                  "text": text, "note": note, "assumptions": COMMON_SCHED}

_sched("C07", "acknowledgements respect acceptance order",
       "every interleaving (within the deviation bound) of two ingest callers, a Flush caller, the engine workers and a task that releases a gated store call; at every nil acknowledgement and every nil Flush return the batches accepted earlier (by the global observation log) must already be answered and, when answered nil, committed",
       "2 non-empty batches (or one empty), flush triggers by row limit / explicit Flush / shutdown, gate at CreateFile, Close or Update; ordering of the acknowledgement of an empty batch is not asserted (documented as immediate)")
_sched("C08", "Stop honours its contract",
       "every interleaving (within the deviation bound) of Stop with 2-3 producers (one making two calls), wedged or ctx-honouring stores, buffered and abandoned unbuffered done channels (valid, empty and rejected batches), an optional concurrent Flush caller (Flush nil implies that no batch accepted before it holds an error), and Stop contexts {Background, deadline as a free timer event, already expired, a custom Context implementation}; oracles: monotone ErrEngineStopped, completeness when Stop returns nil, return within the quiescent closure of the deadline event, no CreateFile/Update started after Stop returned its deadline error, every buffered waiter holds exactly one answer",
       "virtual time: 'roughly by the deadline' is decided as 'without any further timer'; the horizon equals the deadline")

_sched("C09", "bounded backpressure",
       "store stalled for ever at each call kind, 2-3 producers offering more single-row batches than the configuration bound (also one partition per batch, empty batches behind a buffered row, a Flush caller arriving at the saturated pipeline); after every acceptance the number of accepted-but-unanswered batches is compared with IngestBufferSize + 4 flushes' worth; at quiescence not everything may have been accepted and cancelled callers must return",
       "bound = IngestBufferSize + 4 x (batches one flush request can carry); a bound that is a function of the configuration is what the property asks for, not the tightest one")
_sched("C10", "buffered rows flush without Flush",
       "grid of limit settings x batch shapes x MaxBufferedTime x inter-batch gaps (byte limits also x none/snappy/zstd row-data compression) under virtual time: when the reference counters reach a limit every accepted batch must be answered without any timer; otherwise by accept time + MaxBufferedTime + one ticker period, with neither Flush nor Stop called",
       "virtual time advances only at quiescence in this family (scheduling latency is not modelled); the small sequential driver makes the schedule space tiny, the enumeration is over configurations")
_sched("C14", "queries concurrent with flushes and merges",
       "ingest+flush, Merge and a draining Query as concurrent tasks over the shipped MemoryMetaStore (harness DataStore, POSIX-like and object-store-like) and over FileSystemDataStore as both stores with every filesystem call a scheduling point; a query that ends with Err()==nil must return every row acknowledged before it started exactly once and nothing foreign",
       "delay-bounded (every departure from the canonical task order costs 1): bound 2 quick / 3 thorough; filesystem state is one external object in the state key")
_sched("C20", "the Results cursor reaches a correct terminal state",
       "consumer (Next), closer (Close once or twice) and canceller as concurrent tasks around a query over 2 files x 2 blocks (one block with more than one delivery batch), with at most one injected OpenFile/Read/iterator failure (the iterator failure also as a deadline error of the store's own making), on never-started, started and stopped engines (incl. draining a stopped engine); terminal-state rules are evaluated relative to the first terminal-deciding call in the global observation log",
       "quick: delay bound 2; thorough: preemption bound 1 (delay bound 3 for the large fixture)")
_sched("C21", "queries release every resource",
       "same scenarios as C20; at the instant the terminal Next or Close returns every handle must be closed exactly once, never shared or used after close, the MetaStore iterator returned and no engine goroutine of the query alive; a follow-up query whose first MaxQueryConcurrency reads wait for each other must complete",
       "as C20")
_sched("C22", "bounded query I/O, no starvation",
       "2-3 concurrent queries with DataStore reads as two-point operations and a gauge checked at every read entry; a query whose consumer never reads (330 matching rows, buffer full, workers parked on delivery) must not keep another query from completing at MaxQueryConcurrency 1 and 2",
       "delay bound 2 (1 for the 330-row fixture); thorough adds preemption bound 1")

COMMON_SEQ = [
    "bounded alphabets: verdicts hold for the enumerated rows, conditions, trees, layouts and configurations only",
    "the reference walker (encoding/json token stream) is the trusted statement of the documented search semantics; rows with empty object keys are decided by the unpruned-layout differential only",
    "plain build: Go map order and sync.Pool reuse are the runtime's; every oracle is order-insensitive and failing cases must reproduce on five re-runs before they are reported",
]

def _seq(pid, title, text, note, technique, level="exploration", mode=None, extra_parts=None, budget=None):
    parts = [{"engine": "seq", "mode": mode or pid}] + (extra_parts or [])
    PROPS[pid] = {"title": title, "level": level, "technique": technique, "parts": parts,
                  "budget": budget or {"quick": 200, "thorough": 1200}, "text": text, "note": note,
                  "design_ref": "§5 " + pid + ", §2.3", "assumptions": COMMON_SEQ}

_seq("C01", "no false negatives",
     "bounded-exhaustive enumeration of (row x condition x layout) and expression/prefilter trees on the real engine, compared with an independent reference walker and with the engine's own answer on a layout whose filters cannot prune",
     "finite alphabets (≈600 rows incl. unicode/dotted/metachar/empty keys, raw JSON, every Go numeric kind; ≈4000 atomic conditions; 4 tokenizers; 4 layout families quick / 30+ thorough incl. merges and an external writer)",
     "bounded-exhaustive input and history enumeration against a reference model (explicit enumeration, no sampling)")
_seq("C02", "exact results",
     "same enumeration as C01 with the exactness oracle: result multiset ⊆ stored, reference-verified rows, equality without prefilter and the whole-block union rule with prefilter",
     "as C01; rows with duplicate raw-JSON keys are identified with their stored row (their materialisation is C03's subject); scheduler part: two concurrent queries over pooled scan buffers (deterministic LIFO pool, Pool.Get/Put are scheduling points) must each return exactly the stored matching multiset",
     "bounded-exhaustive input and history enumeration against a reference model (explicit enumeration, no sampling); stateless model checking of two concurrent queries under the controlled scheduler",
     extra_parts=[{"engine": "sched", "family": "C03", "only": "pool-", "budget": {"quick": 200, "thorough": 900}}], budget={"quick": 400, "thorough": 1800})
_seq("C23", "statistics account for every block once",
     "per-block accounting rules evaluated on the Stats of every query of the C01 enumeration, against block contents read back through the public helpers",
     "sweep part: fault-free completions; fault part: a failure at every DataStore call position of 10 queries x 5 layouts x concurrency {1,4}; scheduler part: queries ended by Close or cancellation while a block scan is unfinished (450-row block, 66-row block, injected faults) - at-most-once, processed source of every returned row, zero counts for skipped blocks; all-or-none per file is not asserted for queries ended by Close or cancellation (blocks never reached are not evaluated blocks)",
     "bounded-exhaustive enumeration of queries x layouts x fault positions with an accounting oracle, plus controlled-scheduler exploration of early termination",
     extra_parts=[{"engine": "sched", "family": "C23"}], budget={"quick": 400, "thorough": 1500})
_seq("C24", "pruning is effective",
     "every query of the C01 enumeration runs over a recording DataStore; opens and read extents are compared with the pruning the stored filters and prefilter metadata imply",
     "expected pruning is computed from the stored filters themselves (independent filter evaluator, fail-open on absent filters) and the public EvaluateDataBlockMetadata",
     "bounded-exhaustive enumeration of queries x layouts with a recording store")

_seq("C03", "faithful, independent rows",
     "every decodable row of the row alphabet on every compression and block split is paired by reflect.DeepEqual with json.Unmarshal(json.Marshal(row)); retained rows are compared with deep copies after other results were overwritten and later queries reused the scan buffers",
     "sequential part: buffer reuse across queries of one goroutine; concurrent part (scheduler engine): two queries with sync.Pool as a deterministic LIFO pool whose Get/Put are scheduling points, delay bound 2/3",
     "bounded-exhaustive input enumeration against encoding/json as the reference decoder, plus controlled-scheduler exploration of concurrent pool reuse",
     extra_parts=[{"engine": "sched", "family": "C03"}], budget={"quick": 400, "thorough": 1500})
_seq("C04", "prefilters never prune a satisfying block",
     "every block population of one or two boundary values x every operator/operand combination, decided by exact math/big arithmetic at function, metadata, flush and merge level; AND/OR trees over minmax and partition conditions",
     "NaN excluded (documented as not indexed); ±Inf only at function level (not JSON-marshalable)",
     "bounded-exhaustive enumeration with an exact-arithmetic oracle")
_seq("C11", "merge preserves content and answers",
     "breadth-first search over Put/Merge histories (3 differently configured merge engines) with canonical-state deduplication; on every Merge edge the stored multiset, partition/minmax cover and 56 query answers are compared before and after",
     "depth 5 (quick) / 7 (thorough) over a 5-batch alphabet; successor states are rebuilt by replaying the history on fresh in-memory stores",
     "explicit-state breadth-first search over operation histories of the real engine with canonical-state deduplication", level="model_checking")
_seq("C12", "merge output respects layout limits",
     "same history BFS as C11; every output block of every Merge edge is decomposed into whole source blocks and checked against the merging engine's row/byte limits, partition and minmax-key-set homogeneity, files-per-merge and bytes-per-output limits",
     "rows of different Puts are made distinct so that source blocks can be attributed exactly",
     "explicit-state breadth-first search over operation histories of the real engine with canonical-state deduplication", level="model_checking")
_seq("C17", "files describe themselves",
     "every file written by every enumerated layout (flush and merge, all compressions, partitions, minmax keys) is parsed by an independent reader of FILE_FORMAT.md; counts, sizes, CRCs, compression and measured entry counts are recomputed and the public helpers must agree byte for byte",
     "the bloom filter binary encoding itself is decoded with the bits-and-blooms library (a dependency, not the package under test)",
     "bounded-exhaustive enumeration of layouts with an independent format parser")
_seq("C18", "indexes cover their data",
     "for every block of every enumerated layout the reference's field/token/field:token entries must test positive at block and file level; minmax key sets and ranges are recomputed from the original Go values, partition ids from the partition function",
     "as C17",
     "bounded-exhaustive enumeration of layouts with a reference index")
_seq("C25", "expression trees mean what they say",
     "all nested AND/OR combinations up to the stated depth are built through the public constructors and evaluated by the real engine against the nested combination as written; every tree and Query is JSON round-tripped, compared and re-run; builder chains of length <= 4",
     "builder forms the documentation does not define (conditions chained before Match, repeated Match) and AND/OR nodes with a nil-Condition child in regex trees are not asserted",
     "bounded-exhaustive enumeration of expression trees against a nested boolean reference")
_seq("C26", "filters meet the configured rate",
     "grid of entry counts x rates x producers (flush, rebuilt and copied merge blocks, single- and three-partition files); every stored filter must equal, bit for bit, the textbook-sized filter over the reference's entries, and its measured rate over 200000 fixed absent entries must stay within 3x the configured rate (+5 sigma)",
     "the statistical clause is decided by an exact sizing/bit equality plus a fixed-universe measurement, not by a statistical test over random data; filters below 50 entries are a catalogued finding",
     "bounded grid enumeration with an exact construction oracle", budget={"quick": 300, "thorough": 1500})

_seq("C06", "acknowledgements are truthful",
     "a 4-batch history is re-run with a failure at every store call position (quick: singly; thorough: every ordered pair) over 4 store variants; after two further fault-free flushes and a Merge the rows visible on this and on a fresh engine must equal the rows of nil-acknowledged batches",
     "plain build, default schedule (store calls of a sequential history are deterministic); MetaStore with atomic Update",
     "exhaustive fault-position enumeration over a recorded history; stateless model checking of concurrent ingest/Flush callers (C07 family: every nil acknowledgement is checked against the committed rows at that instant)", level="fault_enumeration",
     extra_parts=[{"engine": "sched", "family": "C07", "budget": {"quick": 200, "thorough": 1200}}], budget={"quick": 400, "thorough": 2400})
_seq("C13", "merge is all-or-nothing",
     "Merge over 3-4 files in 1-2 groups is re-run with a failure at every position of every store call kind (iterator, CreateFile, OpenFile, Seek, Read, Write, Close, Abort, Update, TombstoneFile), singly and in pairs; committed-xor-unchanged oracle on both stores, call log, return values and query answers; single-flight with a Merge held inside CreateFile",
     "plain build; MetaStore with atomic Update; concurrent part (scheduler engine): 2-3 overlapping Merge calls over tombstone-deletes / deferred-GC / object-like DataStores and both in-memory MetaStores, preemption bound 1 (2 thorough): each returns nil or ErrMergeInProgress, at least one commits, content stays exactly once",
     "exhaustive fault-position enumeration over a recorded history, plus controlled-scheduler exploration of overlapping Merge calls", level="fault_enumeration",
     extra_parts=[{"engine": "sched", "family": "C13"}], budget={"quick": 400, "thorough": 1500})
_seq("C15", "filesystem store is crash-consistent",
     "every prefix of the os-level operation log of 4 histories (scripted file names forming prefix chains) and of every single-fault abort path yields process-crash and power-loss directory states (torn writes, unsynced data absent/present, every prefix or subset of unsynced directory operations); each distinct state is materialised and recovered by a fresh engine",
     "verdict is relative to the stated durability model; the operation log is produced by the implementation itself through the os shim placed by the build overlay",
     "exhaustive crash-point and power-loss state enumeration from the implementation's own operation log", level="fault_enumeration")
_seq("C16", "FileSystemDataStore behaves like its specification",
     "breadth-first search over call sequences of 2-3 writer slots with a scripted name draw (forced collisions), Close failures, slot reuse and one reader held open across later operations; after every step the real directory, the scan and OpenFile are compared byte for byte with a map model",
     "the name-draw hook is added through the build overlay (verif tag); tombstoning a pointer whose name was re-drawn after its writer aborted is outside the contract and not explored",
     "explicit-state breadth-first search over call sequences of the real store with a reference model", level="model_checking")
_seq("C19", "corruption fails cleanly",
     "exhaustive single-byte, window, truncation, extension and splice mutations plus CRC-consistent framing-field grids of engine-written files (with and without row data hashes), each read through every helper (with the metadata the file declares and with the metadata a MetaStore holds) and queried in three flows (self-described, MetaStore holding the original metadata, MetaStore holding the re-written metadata over the intact file), in child processes with an address-space limit",
     "content oracles are off for files without row data hashes (corruption is then undetectable by design) except the framing oracle: row data that is not a sequence of whole length-prefixed rows must be reported by the scanner and by the match-all query; UncompressedSize left valid",
     "exhaustive mutation enumeration with process isolation, plus controlled-scheduler exploration of read failures on multi-read filter passes (pool shim: nothing is released twice; follow-up query exact)", level="fault_enumeration",
     extra_parts=[{"engine": "sched", "family": "C19"}], budget={"quick": 400, "thorough": 1500})
_seq("C27", "silent by default",
     "all single-fault flush and merge runs, corrupt-file queries, absent-filter files, Stop deadlines against wedged stores and a plain lifecycle run in child processes whose descriptors 1 and 2 are regular files that must stay empty",
     "Logger nil; the harness itself writes nothing in the child",
     "fault-scenario enumeration with descriptor capture", level="fault_enumeration")

NOT_YET = {}

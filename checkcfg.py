"""Per-property check configuration: which engine parts decide the property, the level
claimed and the standing assumptions. MANIFEST.json is generated from this table by
tools/gen_manifest.py so that the two cannot drift."""

COMMON_SCHED = [
    "all inter-task communication of the explored code goes through the shimmed primitives (chan/select/sync/atomic/context/time) or is ordered by them (data-race freedom); checked separately by a free-running -race pass, which is sampling and not the deciding step",
    "context cancellation of a context and its descendants is one atomic step; time is virtual and advances only at quiescence or as an explicit deviation",
    "map iteration order is replaced by sorted-key order and sync.Pool by a deterministic LIFO pool",
]

PROPS = {
    "C05": {
        "title": "Every accepted batch is answered exactly once",
        "level": "model_checking",
        "technique": "stateless model checking of the real engine goroutines under a controlled scheduler (preemption-bounded DFS with trace-equivalence pruning)",
        "parts": [{"engine": "sched", "family": "C05"}],
        "budget": {"quick": 100, "thorough": 1200},
        "design_ref": "§5 C05, §2.2",
        "text": "exhaustive exploration of every interleaving (within the stated deviation bound) of concurrent IngestRows/Flush/Start/Stop callers around the real engine, with at most one injected store fault; each execution is checked for exactly-one answers on every accepted done channel",
        "note": "bounded: 2 producers x <=2 batches, deviation bound 1 (quick) / 2 (thorough); shim runtime semantics as pinned by the litmus tests",
        "assumptions": COMMON_SCHED,
    },
}

NOT_YET = {}

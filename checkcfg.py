"""Per-property check configuration: which engine parts decide the property, the level
claimed and the standing assumptions. MANIFEST.json is generated from this table by
tools/gen_manifest.py so that the two cannot drift."""

COMMON_SCHED = [
    "all inter-task communication of the explored code goes through the shimmed primitives (chan/select/sync/atomic/context/time) or is ordered by them (data-race freedom); checked separately by a free-running -race pass, which is sampling and not the deciding step",
    "context cancellation of a context and its descendants is one atomic step; time is virtual and advances only at quiescence or as an explicit deviation",
    "map iteration order is replaced by sorted-key order and sync.Pool by a deterministic LIFO pool",
]

PROPS = {
    "C05": {
        "title": "Every accepted batch is answered exactly once",
        "level": "model_checking",
        "technique": "stateless model checking of the real engine goroutines under a controlled scheduler (preemption-bounded DFS with trace-equivalence pruning)",
        "parts": [{"engine": "sched", "family": "C05"}],
        "budget": {"quick": 100, "thorough": 1200},
        "design_ref": "§5 C05, §2.2",
        "text": "exhaustive exploration of every interleaving (within the stated deviation bound) of concurrent IngestRows/Flush/Start/Stop callers around the real engine, with at most one injected store fault; each execution is checked for exactly-one answers on every accepted done channel",
        "note": "bounded: 2 producers x <=2 batches, deviation bound 1 (quick) / 2 (thorough); shim runtime semantics as pinned by the litmus tests",
        "assumptions": COMMON_SCHED,
    },
}

COMMON_SEQ = [
    "bounded alphabets: verdicts hold for the enumerated rows, conditions, trees, layouts and configurations only",
    "the reference walker (encoding/json token stream) is the trusted statement of the documented search semantics; rows with empty object keys are decided by the unpruned-layout differential only",
    "plain build: Go map order and sync.Pool reuse are the runtime's; every oracle is order-insensitive and failing cases must reproduce on five re-runs before they are reported",
]

def _seq(pid, title, text, note, technique, level="exploration", mode=None, extra_parts=None, budget=None):
    parts = [{"engine": "seq", "mode": mode or pid}] + (extra_parts or [])
    PROPS[pid] = {"title": title, "level": level, "technique": technique, "parts": parts,
                  "budget": budget or {"quick": 90, "thorough": 1200}, "text": text, "note": note,
                  "design_ref": "§5 " + pid + ", §2.3", "assumptions": COMMON_SEQ}

_seq("C01", "no false negatives",
     "bounded-exhaustive enumeration of (row x condition x layout) and expression/prefilter trees on the real engine, compared with an independent reference walker and with the engine's own answer on a layout whose filters cannot prune",
     "finite alphabets (≈600 rows incl. unicode/dotted/metachar/empty keys, raw JSON, every Go numeric kind; ≈4000 atomic conditions; 4 tokenizers; 4 layout families quick / 30+ thorough incl. merges and an external writer)",
     "bounded-exhaustive input and history enumeration against a reference model (explicit enumeration, no sampling)")
_seq("C02", "exact results",
     "same enumeration as C01 with the exactness oracle: result multiset ⊆ stored, reference-verified rows, equality without prefilter and the whole-block union rule with prefilter",
     "as C01; rows with duplicate raw-JSON keys are identified with their stored row (their materialisation is C03's subject)",
     "bounded-exhaustive input and history enumeration against a reference model (explicit enumeration, no sampling)")
_seq("C23", "statistics account for every block once",
     "per-block accounting rules evaluated on the Stats of every query of the C01 enumeration, against block contents read back through the public helpers",
     "fault-free completions only in this part; accounting under read faults is explored by the fault-enumeration part when present",
     "bounded-exhaustive enumeration of queries x layouts with an accounting oracle")
_seq("C24", "pruning is effective",
     "every query of the C01 enumeration runs over a recording DataStore; opens and read extents are compared with the pruning the stored filters and prefilter metadata imply",
     "expected pruning is computed from the stored filters themselves (independent filter evaluator, fail-open on absent filters) and the public EvaluateDataBlockMetadata",
     "bounded-exhaustive enumeration of queries x layouts with a recording store")

NOT_YET = {}

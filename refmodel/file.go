package refmodel

import (
	"bytes"
	"encoding/binary"
	"encoding/json"
	"fmt"
	"hash/crc32"
	"io"
	"math"

	"github.com/bits-and-blooms/bloom/v3"
	"github.com/klauspost/compress/snappy"
	"github.com/klauspost/compress/zstd"
)

var castagnoli = crc32.MakeTable(crc32.Castagnoli)

// Independent reading of FILE_FORMAT.md (version 3).

type EntryCounts struct{ Fields, Tokens, FieldTokens int }

type MinMax struct{ Min, Max int64 }

type BlockJSON struct {
	RowDataOffset, RowDataSize, Rows   int
	BloomFilterOffset, BloomFilterSize int
	MinMaxIndexes                      map[string]MinMax
	PartitionID                        string
	Compression                        string
	UncompressedSize                   int
	RowDataHash                        uint32
	HasRowDataHash                     bool
	BloomEntryCounts                   EntryCounts
	BloomFalsePositiveRate             float64
}

type MetaJSON struct {
	BloomFalsePositiveRate  float64
	BloomEntryCounts        EntryCounts
	BlockFilterRegionOffset int
	BlockFilterRegionSize   int
	FileFilterSectionSize   int
	DataBlocks              []BlockJSON
}

type Filters struct{ Field, Token, FieldToken *bloom.BloomFilter }

type ParsedBlock struct {
	Meta       BlockJSON
	Compressed []byte
	RowData    []byte
	Rows       [][]byte
	Section    []byte
	Filters    Filters
}

type ParsedFile struct {
	Size         int
	Meta         MetaJSON
	MetaOffset   int
	FileFilters  Filters
	FileSection  []byte
	Blocks       []ParsedBlock
}

const footerTail = 4 + 4 + 4 + 8

// ParseFile parses a complete bloom file and verifies every checksum and extent.
func ParseFile(data []byte) (*ParsedFile, error) {
	n := len(data)
	if n < footerTail {
		return nil, fmt.Errorf("file too small (%d)", n)
	}
	if string(data[n-8:]) != "BLOMSRCH" {
		return nil, fmt.Errorf("bad magic")
	}
	if v := binary.LittleEndian.Uint32(data[n-12:]); v != 3 {
		return nil, fmt.Errorf("version %d", v)
	}
	mlen := int(binary.LittleEndian.Uint32(data[n-16:]))
	mcrc := binary.LittleEndian.Uint32(data[n-20:])
	moff := n - footerTail - mlen
	if moff < 0 {
		return nil, fmt.Errorf("metadata length %d exceeds file", mlen)
	}
	mb := data[moff : moff+mlen]
	if crc32.Checksum(mb, castagnoli) != mcrc {
		return nil, fmt.Errorf("metadata crc mismatch")
	}
	pf := &ParsedFile{Size: n, MetaOffset: moff}
	if err := json.Unmarshal(mb, &pf.Meta); err != nil {
		return nil, fmt.Errorf("metadata json: %v", err)
	}
	fs := pf.Meta.FileFilterSectionSize
	if fs < 0 || fs > moff {
		return nil, fmt.Errorf("file filter section size %d", fs)
	}
	pf.FileSection = data[moff-fs : moff]
	if fs > 0 {
		f, err := parseSection(pf.FileSection)
		if err != nil {
			return nil, fmt.Errorf("file filter section: %v", err)
		}
		pf.FileFilters = f
	}
	limit := moff - fs
	ro, rs := pf.Meta.BlockFilterRegionOffset, pf.Meta.BlockFilterRegionSize
	if ro < 0 || rs < 0 || ro+rs > limit {
		return nil, fmt.Errorf("region [%d,+%d) outside data area %d", ro, rs, limit)
	}
	for i, b := range pf.Meta.DataBlocks {
		if b.RowDataOffset < 0 || b.RowDataSize < 0 || b.RowDataOffset+b.RowDataSize > ro {
			return nil, fmt.Errorf("block %d row data [%d,+%d) beyond region start %d", i, b.RowDataOffset, b.RowDataSize, ro)
		}
		pb := ParsedBlock{Meta: b, Compressed: data[b.RowDataOffset : b.RowDataOffset+b.RowDataSize]}
		if b.HasRowDataHash && crc32.Checksum(pb.Compressed, castagnoli) != b.RowDataHash {
			return nil, fmt.Errorf("block %d row data hash mismatch", i)
		}
		rd, err := decompress(pb.Compressed, b.Compression, b.UncompressedSize)
		if err != nil {
			return nil, fmt.Errorf("block %d: %v", i, err)
		}
		pb.RowData = rd
		rows, err := splitRows(rd)
		if err != nil {
			return nil, fmt.Errorf("block %d: %v", i, err)
		}
		pb.Rows = rows
		if b.BloomFilterSize > 0 {
			if b.BloomFilterOffset < ro || b.BloomFilterOffset+b.BloomFilterSize > ro+rs {
				return nil, fmt.Errorf("block %d filter section outside region", i)
			}
			pb.Section = data[b.BloomFilterOffset : b.BloomFilterOffset+b.BloomFilterSize]
			f, err := parseSection(pb.Section)
			if err != nil {
				return nil, fmt.Errorf("block %d filter section: %v", i, err)
			}
			pb.Filters = f
		}
		pf.Blocks = append(pf.Blocks, pb)
	}
	return pf, nil
}

func parseSection(s []byte) (Filters, error) {
	var f Filters
	if len(s) < 5 {
		return f, fmt.Errorf("section too small")
	}
	body := s[:len(s)-4]
	if crc32.Checksum(body, castagnoli) != binary.LittleEndian.Uint32(s[len(s)-4:]) {
		return f, fmt.Errorf("section crc mismatch")
	}
	flags := body[0]
	if flags&^7 != 0 {
		return f, fmt.Errorf("unknown flags %#x", flags)
	}
	rest := body[1:]
	next := func() (*bloom.BloomFilter, error) {
		if len(rest) < 4 {
			return nil, fmt.Errorf("truncated length")
		}
		l := int(binary.LittleEndian.Uint32(rest))
		rest = rest[4:]
		if l > len(rest) {
			return nil, fmt.Errorf("filter length %d > %d", l, len(rest))
		}
		bf := &bloom.BloomFilter{}
		if _, err := bf.ReadFrom(bytes.NewReader(rest[:l])); err != nil {
			return nil, err
		}
		rest = rest[l:]
		return bf, nil
	}
	var err error
	if flags&1 != 0 {
		if f.Field, err = next(); err != nil {
			return f, err
		}
	}
	if flags&2 != 0 {
		if f.Token, err = next(); err != nil {
			return f, err
		}
	}
	if flags&4 != 0 {
		if f.FieldToken, err = next(); err != nil {
			return f, err
		}
	}
	if len(rest) != 0 {
		return f, fmt.Errorf("%d trailing bytes", len(rest))
	}
	return f, nil
}

func decompress(c []byte, kind string, usize int) ([]byte, error) {
	switch kind {
	case "", "none":
		return c, nil
	case "snappy":
		out, err := io.ReadAll(snappy.NewReader(bytes.NewReader(c)))
		if err != nil {
			return nil, fmt.Errorf("snappy: %v", err)
		}
		if len(out) != usize {
			return nil, fmt.Errorf("snappy: %d bytes, metadata says %d", len(out), usize)
		}
		return out, nil
	case "zstd":
		d, err := zstd.NewReader(nil, zstd.WithDecoderConcurrency(1))
		if err != nil {
			return nil, err
		}
		defer d.Close()
		out, err := d.DecodeAll(c, nil)
		if err != nil {
			return nil, fmt.Errorf("zstd: %v", err)
		}
		if len(out) != usize {
			return nil, fmt.Errorf("zstd: %d bytes, metadata says %d", len(out), usize)
		}
		return out, nil
	}
	return nil, fmt.Errorf("unknown compression %q", kind)
}

func splitRows(d []byte) ([][]byte, error) {
	var rows [][]byte
	for len(d) > 0 {
		if len(d) < 4 {
			return nil, fmt.Errorf("truncated row length")
		}
		l := int(binary.LittleEndian.Uint32(d))
		d = d[4:]
		if l > len(d) {
			return nil, fmt.Errorf("row length %d > %d", l, len(d))
		}
		rows = append(rows, d[:l])
		d = d[l:]
	}
	return rows, nil
}

// OptimalParams is the textbook bloom sizing for n entries at rate p.
func OptimalParams(n int, p float64) (m, k uint) {
	if n < 1 {
		n = 1
	}
	mf := math.Ceil(-1 * float64(n) * math.Log(p) / (math.Ln2 * math.Ln2))
	kf := math.Ceil(math.Ln2 * mf / float64(n))
	return uint(mf), uint(kf)
}

package refmodel

import (
	"regexp"

	bs "github.com/danthegoodman1/bloomsearch"
)

// MatchBloom evaluates a bloom expression tree on a row by the documented semantics:
// nil expression / nil condition = true, empty OR = false, AND of nothing = true,
// unknown node or condition type = false.
func MatchBloom(ri *RowInfo, e *bs.BloomExpression, tok Tokenizer) bool {
	if e == nil {
		return true
	}
	switch e.ExpressionType {
	case bs.BloomExpressionCondition:
		c := e.Condition
		if c == nil {
			return true
		}
		switch c.Type {
		case bs.BloomField:
			return ri.HasField(c.Field)
		case bs.BloomToken:
			return ri.HasToken(c.Token, tok)
		case bs.BloomFieldToken:
			return ri.HasFieldToken(c.Field, c.Token, tok)
		}
		return false
	case bs.BloomExpressionAnd:
		for i := range e.Children {
			if !MatchBloom(ri, &e.Children[i], tok) {
				return false
			}
		}
		return true
	case bs.BloomExpressionOr:
		for i := range e.Children {
			if MatchBloom(ri, &e.Children[i], tok) {
				return true
			}
		}
		return false
	}
	return false
}

// RegexCompileError reports whether Query is documented to fail fast on this tree
// (invalid pattern or unknown node type anywhere in the tree).
func RegexCompileError(e *bs.RegexExpression) bool {
	if e == nil {
		return false
	}
	switch e.ExpressionType {
	case bs.RegexExpressionCondition:
		if e.Condition == nil {
			return false
		}
		_, err := regexp.Compile(e.Condition.Pattern)
		return err != nil
	case bs.RegexExpressionAnd, bs.RegexExpressionOr:
		for i := range e.Children {
			if RegexCompileError(&e.Children[i]) {
				return true
			}
		}
		return false
	}
	return true
}

// MatchRegex evaluates a regex expression tree (patterns must compile).
func MatchRegex(ri *RowInfo, e *bs.RegexExpression) bool {
	if e == nil {
		return true
	}
	switch e.ExpressionType {
	case bs.RegexExpressionCondition:
		c := e.Condition
		if c == nil {
			return true
		}
		re, err := regexp.Compile(c.Pattern)
		if err != nil {
			return false
		}
		return ri.RegexMatch(c.Field, re)
	case bs.RegexExpressionAnd:
		for i := range e.Children {
			if !MatchRegex(ri, &e.Children[i]) {
				return false
			}
		}
		return true
	case bs.RegexExpressionOr:
		for i := range e.Children {
			if MatchRegex(ri, &e.Children[i]) {
				return true
			}
		}
		return false
	}
	return false
}

// MatchQuery = bloom AND regex.
func MatchQuery(ri *RowInfo, q *bs.Query, tok Tokenizer) bool {
	if q == nil {
		return true
	}
	if q.Bloom != nil && !MatchBloom(ri, q.Bloom.Expression, tok) {
		return false
	}
	if q.Regex != nil && !MatchRegex(ri, q.Regex.Expression) {
		return false
	}
	return true
}

// HasConditionLeaf reports whether a query has any bloom or regex condition leaf.
func HasConditionLeaf(q *bs.Query) bool {
	if q == nil {
		return false
	}
	var b func(e *bs.BloomExpression) bool
	b = func(e *bs.BloomExpression) bool {
		if e == nil {
			return false
		}
		if e.Condition != nil && e.ExpressionType == bs.BloomExpressionCondition {
			return true
		}
		for i := range e.Children {
			if b(&e.Children[i]) {
				return true
			}
		}
		return false
	}
	var r func(e *bs.RegexExpression) bool
	r = func(e *bs.RegexExpression) bool {
		if e == nil {
			return false
		}
		if e.Condition != nil && e.ExpressionType == bs.RegexExpressionCondition {
			return true
		}
		for i := range e.Children {
			if r(&e.Children[i]) {
				return true
			}
		}
		return false
	}
	return (q.Bloom != nil && b(q.Bloom.Expression)) || (q.Regex != nil && r(q.Regex.Expression))
}

// RegexTreeUndefined reports whether the tree contains an AND/OR node with a CONDITION
// child whose Condition is nil. No documentation defines such a child (the bloom
// evaluator treats it as true, the regex compiler drops it), so the hard oracle leaves
// these trees out.
func RegexTreeUndefined(e *bs.RegexExpression) bool {
	if e == nil {
		return false
	}
	for i := range e.Children {
		c := &e.Children[i]
		if c.ExpressionType == bs.RegexExpressionCondition && c.Condition == nil {
			return true
		}
		if RegexTreeUndefined(c) {
			return true
		}
	}
	return false
}

package refmodel

import (
	"math"
	"math/big"
	"reflect"

	bs "github.com/danthegoodman1/bloomsearch"
)

// Num is an exact numeric value: a rational, or ±infinity.
type Num struct {
	R   *big.Rat
	Inf int // +1 / -1 / 0
}

// ExactNum converts any Go integer or floating-point value (named types included) to an
// exact number; ok=false for non-numeric values and NaN.
func ExactNum(v any) (Num, bool) {
	if v == nil {
		return Num{}, false
	}
	rv := reflect.ValueOf(v)
	switch rv.Kind() {
	case reflect.Int, reflect.Int8, reflect.Int16, reflect.Int32, reflect.Int64:
		return Num{R: new(big.Rat).SetInt64(rv.Int())}, true
	case reflect.Uint, reflect.Uint8, reflect.Uint16, reflect.Uint32, reflect.Uint64, reflect.Uintptr:
		return Num{R: new(big.Rat).SetInt(new(big.Int).SetUint64(rv.Uint()))}, true
	case reflect.Float32, reflect.Float64:
		f := rv.Float()
		if math.IsNaN(f) {
			return Num{}, false
		}
		if math.IsInf(f, 1) {
			return Num{Inf: 1}, true
		}
		if math.IsInf(f, -1) {
			return Num{Inf: -1}, true
		}
		return Num{R: new(big.Rat).SetFloat64(f)}, true
	}
	return Num{}, false
}

// Cmp compares x with the integer c.
func (x Num) Cmp(c int64) int {
	if x.Inf != 0 {
		return x.Inf
	}
	return x.R.Cmp(new(big.Rat).SetInt64(c))
}

// Floor and Ceil as exact integers (nil for infinities).
func (x Num) Floor() *big.Int {
	if x.Inf != 0 {
		return nil
	}
	q := new(big.Int)
	m := new(big.Int)
	q.DivMod(x.R.Num(), x.R.Denom(), m) // Euclidean: floor for positive denominators
	return q
}

func (x Num) Ceil() *big.Int {
	if x.Inf != 0 {
		return nil
	}
	f := x.Floor()
	if x.R.IsInt() {
		return f
	}
	return new(big.Int).Add(f, big.NewInt(1))
}

// NumSatisfies evaluates a numeric condition on an exact value.
func NumSatisfies(x Num, c bs.NumericCondition) bool {
	switch c.Operator {
	case bs.OpEqual:
		return x.Cmp(c.Value) == 0
	case bs.OpNotEqual:
		return x.Cmp(c.Value) != 0
	case bs.OpGreaterThan:
		return x.Cmp(c.Value) > 0
	case bs.OpGreaterThanEqual:
		return x.Cmp(c.Value) >= 0
	case bs.OpLessThan:
		return x.Cmp(c.Value) < 0
	case bs.OpLessThanEqual:
		return x.Cmp(c.Value) <= 0
	case bs.OpIn:
		for _, v := range c.Values {
			if x.Cmp(v) == 0 {
				return true
			}
		}
		return false
	case bs.OpNotIn:
		for _, v := range c.Values {
			if x.Cmp(v) == 0 {
				return false
			}
		}
		return true
	case bs.OpBetween:
		return x.Cmp(c.Min) >= 0 && x.Cmp(c.Max) <= 0
	case bs.OpNotBetween:
		return x.Cmp(c.Min) < 0 || x.Cmp(c.Max) > 0
	}
	return false
}

// StrSatisfies evaluates a string condition.
func StrSatisfies(s string, c bs.StringCondition) bool {
	switch c.Operator {
	case bs.OpEqual:
		return s == c.Value
	case bs.OpNotEqual:
		return s != c.Value
	case bs.OpGreaterThan:
		return s > c.Value
	case bs.OpGreaterThanEqual:
		return s >= c.Value
	case bs.OpLessThan:
		return s < c.Value
	case bs.OpLessThanEqual:
		return s <= c.Value
	case bs.OpIn:
		for _, v := range c.Values {
			if s == v {
				return true
			}
		}
		return false
	case bs.OpNotIn:
		for _, v := range c.Values {
			if s == v {
				return false
			}
		}
		return true
	case bs.OpBetween:
		return s >= c.Min && s <= c.Max
	case bs.OpNotBetween:
		return s < c.Min || s > c.Max
	}
	return false
}

// RowSatisfiesPrefilter: does the row's own partition id and its own indexed numeric
// values satisfy the prefilter tree? (Row-level truth, the antecedent of C01/C04.)
// indexed restricts minmax conditions to keys the engine was configured to index.
func RowSatisfiesPrefilter(row map[string]any, partition string, indexed map[string]bool, e *bs.PrefilterExpression) bool {
	if e == nil {
		return true
	}
	switch e.ExpressionType {
	case bs.PrefilterExpressionCondition:
		c := e.Condition
		if c == nil {
			return true
		}
		switch c.ConditionType {
		case bs.PrefilterConditionPartition:
			if c.PartitionCondition == nil {
				return true
			}
			if partition == "" {
				return false
			}
			return StrSatisfies(partition, *c.PartitionCondition)
		case bs.PrefilterConditionMinMax:
			if c.MinMaxCondition == nil {
				return true
			}
			if !indexed[c.MinMaxFieldName] {
				return false
			}
			v, ok := row[c.MinMaxFieldName]
			if !ok {
				return false
			}
			x, ok := ExactNum(v)
			if !ok {
				return false
			}
			return NumSatisfies(x, *c.MinMaxCondition)
		}
		return false
	case bs.PrefilterExpressionAnd:
		for i := range e.Children {
			if !RowSatisfiesPrefilter(row, partition, indexed, &e.Children[i]) {
				return false
			}
		}
		return true
	case bs.PrefilterExpressionOr:
		for i := range e.Children {
			if RowSatisfiesPrefilter(row, partition, indexed, &e.Children[i]) {
				return true
			}
		}
		return false
	}
	return false
}

// BlockMeta is the reference view of a block's prefilter metadata.
type BlockMeta struct {
	Partition string
	MinMax    map[string][2]int64
}

// BlockSatisfies evaluates the prefilter on block metadata with strict semantics and
// exact range reasoning: a minmax condition holds when some integer-or-real value in the
// recorded range [min,max] (open-ended at saturated int64 extremes) could satisfy it.
// missing is set when a condition referenced metadata the block does not carry.
func BlockSatisfies(b BlockMeta, e *bs.PrefilterExpression, missing *bool) bool {
	if e == nil {
		return true
	}
	switch e.ExpressionType {
	case bs.PrefilterExpressionCondition:
		c := e.Condition
		if c == nil {
			return true
		}
		switch c.ConditionType {
		case bs.PrefilterConditionPartition:
			if c.PartitionCondition == nil {
				return true
			}
			if b.Partition == "" {
				*missing = true
				return false
			}
			return StrSatisfies(b.Partition, *c.PartitionCondition)
		case bs.PrefilterConditionMinMax:
			if c.MinMaxCondition == nil {
				return true
			}
			r, ok := b.MinMax[c.MinMaxFieldName]
			if !ok {
				*missing = true
				return false
			}
			return RangeMaySatisfy(r[0], r[1], *c.MinMaxCondition)
		}
		return false
	case bs.PrefilterExpressionAnd:
		res := true
		for i := range e.Children {
			if !BlockSatisfies(b, &e.Children[i], missing) {
				res = false
			}
		}
		return res
	case bs.PrefilterExpressionOr:
		res := false
		for i := range e.Children {
			if BlockSatisfies(b, &e.Children[i], missing) {
				res = true
			}
		}
		return res
	}
	return false
}

// RangeMaySatisfy: can some real value of the recorded range satisfy the condition? A
// bound stored at an int64 extreme is open-ended (values beyond int64 clamp there).
func RangeMaySatisfy(min, max int64, c bs.NumericCondition) bool {
	loInf, hiInf := min == math.MinInt64, max == math.MaxInt64
	geLo := func(v int64) bool { return loInf || min <= v } // lower <= v
	leHi := func(v int64) bool { return hiInf || v <= max } // v <= upper
	switch c.Operator {
	case bs.OpEqual:
		return geLo(c.Value) && leHi(c.Value)
	case bs.OpNotEqual:
		return loInf || hiInf || !(min == c.Value && max == c.Value)
	case bs.OpGreaterThan:
		return hiInf || max > c.Value
	case bs.OpGreaterThanEqual:
		return hiInf || max >= c.Value
	case bs.OpLessThan:
		return loInf || min < c.Value
	case bs.OpLessThanEqual:
		return loInf || min <= c.Value
	case bs.OpIn:
		for _, v := range c.Values {
			if geLo(v) && leHi(v) {
				return true
			}
		}
		return false
	case bs.OpNotIn:
		if loInf || hiInf || min != max {
			return true
		}
		for _, v := range c.Values {
			if v == min {
				return false
			}
		}
		return true
	case bs.OpBetween:
		return c.Min <= c.Max && geLo(c.Max) && leHi(c.Min)
	case bs.OpNotBetween:
		return loInf || hiInf || min < c.Min || max > c.Max
	}
	return false
}

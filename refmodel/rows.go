// Package refmodel holds the reference oracles of engine E2. Nothing here calls into the
// package under test except through its exported *types* (expression trees); row
// semantics are re-derived from the README with encoding/json's token stream (not gjson).
package refmodel

import (
	"bytes"
	"encoding/json"
	"fmt"
	"io"
	"regexp"
	"sort"
	"strings"
)

// Leaf is one primitive value of a row.
type Leaf struct {
	Path    string
	Text    string
	HasText bool // false for null
}

// RowInfo is the reference view of one stored row.
type RowInfo struct {
	Raw      []byte
	Canon    string // canonical JSON after a float64 round trip ("" when not decodable)
	// CanonFirst is the canonical form when the FIRST of duplicate object keys wins
	// (encoding/json keeps the last); equal to Canon for rows without duplicate keys.
	CanonFirst string
	DupKeys    bool
	IsObject bool
	Paths    map[string]bool
	Leaves   []Leaf
	EmptyKey bool // some object key is empty (documentation leaves these to the implementation)
}

func joinPath(parent, key string) string {
	if parent == "" {
		return key
	}
	return parent + "." + key
}

// Analyze walks the marshaled bytes of a row.
func Analyze(raw []byte) (*RowInfo, error) {
	ri := &RowInfo{Raw: raw, Paths: map[string]bool{}}
	dec := json.NewDecoder(bytes.NewReader(raw))
	dec.UseNumber()
	if err := ri.walk(dec, "", true); err != nil {
		return nil, err
	}
	if _, err := dec.Token(); err != io.EOF {
		return nil, fmt.Errorf("trailing data")
	}
	var v any
	if err := json.Unmarshal(raw, &v); err == nil {
		if _, ok := v.(map[string]any); ok {
			ri.IsObject = true
		}
		b, err := json.Marshal(v)
		if err == nil {
			ri.Canon = string(b)
		}
	}
	ri.CanonFirst = ri.Canon
	d2 := json.NewDecoder(bytes.NewReader(raw))
	if fv, dup, err := firstWins(d2); err == nil && dup {
		ri.DupKeys = true
		if b, err := json.Marshal(fv); err == nil {
			ri.CanonFirst = string(b)
		}
	}
	return ri, nil
}

// firstWins decodes one JSON value keeping the first of duplicate object keys.
func firstWins(dec *json.Decoder) (any, bool, error) {
	tok, err := dec.Token()
	if err != nil {
		return nil, false, err
	}
	switch t := tok.(type) {
	case json.Delim:
		dup := false
		if t == '{' {
			m := map[string]any{}
			for dec.More() {
				kt, err := dec.Token()
				if err != nil {
					return nil, false, err
				}
				v, d, err := firstWins(dec)
				if err != nil {
					return nil, false, err
				}
				dup = dup || d
				k := kt.(string)
				if _, ok := m[k]; ok {
					dup = true
				} else {
					m[k] = v
				}
			}
			_, err = dec.Token()
			return m, dup, err
		}
		arr := []any{}
		for dec.More() {
			v, d, err := firstWins(dec)
			if err != nil {
				return nil, false, err
			}
			dup = dup || d
			arr = append(arr, v)
		}
		_, err = dec.Token()
		return arr, dup, err
	default:
		return t, false, nil
	}
}

func (ri *RowInfo) emit(path string) {
	if path != "" {
		ri.Paths[path] = true
	}
}

func (ri *RowInfo) leaf(path, text string, has bool) {
	if path == "" {
		return
	}
	ri.Paths[path] = true
	ri.Leaves = append(ri.Leaves, Leaf{Path: path, Text: text, HasText: has})
}

func (ri *RowInfo) walk(dec *json.Decoder, path string, root bool) error {
	tok, err := dec.Token()
	if err != nil {
		return err
	}
	switch t := tok.(type) {
	case json.Delim:
		switch t {
		case '{':
			ri.emit(path)
			for dec.More() {
				kt, err := dec.Token()
				if err != nil {
					return err
				}
				key, ok := kt.(string)
				if !ok {
					return fmt.Errorf("non-string key")
				}
				if key == "" {
					ri.EmptyKey = true
				}
				// every delimiter-split prefix of the key is a field-existence path
				for i := 0; i < len(key); i++ {
					if key[i] == '.' {
						ri.emit(joinPath(path, key[:i]))
					}
				}
				if err := ri.walk(dec, joinPath(path, key), false); err != nil {
					return err
				}
			}
			_, err = dec.Token()
			return err
		case '[':
			ri.emit(path)
			for dec.More() {
				if err := ri.walk(dec, path, false); err != nil {
					return err
				}
			}
			_, err = dec.Token()
			return err
		}
		return fmt.Errorf("unexpected delimiter %v", t)
	case string:
		ri.leaf(path, t, true)
	case json.Number:
		ri.leaf(path, t.String(), true)
	case bool:
		if t {
			ri.leaf(path, "true", true)
		} else {
			ri.leaf(path, "false", true)
		}
	case nil:
		ri.leaf(path, "", false)
	}
	return nil
}

// joinPath with an empty parent and a key "" yields "", which is skipped by emit/leaf;
// children of such a key then start from an empty parent again — the documented
// "empty path matches nothing" rule applied at every level.

// Tokenizer is a deterministic value tokenizer.
type Tokenizer func(string) []string

// DefaultTokenizer is the documented default: split on whitespace, lowercase.
func DefaultTokenizer(s string) []string { return strings.Fields(strings.ToLower(s)) }

func (ri *RowInfo) HasField(p string) bool { return p != "" && ri.Paths[p] }

func (ri *RowInfo) HasToken(t string, tok Tokenizer) bool {
	for _, l := range ri.Leaves {
		if !l.HasText {
			continue
		}
		for _, x := range tok(l.Text) {
			if x == t {
				return true
			}
		}
	}
	return false
}

func (ri *RowInfo) HasFieldToken(p, t string, tok Tokenizer) bool {
	if p == "" {
		return false
	}
	for _, l := range ri.Leaves {
		if !l.HasText || l.Path != p {
			continue
		}
		for _, x := range tok(l.Text) {
			if x == t {
				return true
			}
		}
	}
	return false
}

func (ri *RowInfo) RegexMatch(p string, re *regexp.Regexp) bool {
	if p == "" {
		return false
	}
	pre := p + "."
	for _, l := range ri.Leaves {
		if !l.HasText {
			continue
		}
		if l.Path == p || strings.HasPrefix(l.Path, pre) {
			if re.MatchString(l.Text) {
				return true
			}
		}
	}
	return false
}

// Entries returns the distinct field / token / field::token entries the row contributes.
func (ri *RowInfo) Entries(tok Tokenizer) (fields, tokens, fieldTokens map[string]bool) {
	fields, tokens, fieldTokens = map[string]bool{}, map[string]bool{}, map[string]bool{}
	for p := range ri.Paths {
		fields[p] = true
	}
	for _, l := range ri.Leaves {
		if !l.HasText {
			continue
		}
		for _, x := range tok(l.Text) {
			tokens[x] = true
			fieldTokens[l.Path+"::"+x] = true
		}
	}
	return
}

// SortedKeys returns the sorted keys of a set.
func SortedKeys(m map[string]bool) []string {
	out := make([]string, 0, len(m))
	for k := range m {
		out = append(out, k)
	}
	sort.Strings(out)
	return out
}

#!/bin/bash
# usage: build_sched.sh SCRATCH  -> builds $SCRATCH/hsched from /repo's working tree (instrumented)
set -e
S=$1
export GOTOOLCHAIN=local GOFLAGS=-mod=mod GOPROXY=off GOSUMDB=off PATH=/opt/veriftools/go1.26.8/bin:$PATH
V=$(cd "$(dirname "$0")" && pwd)
cd $V
mkdir -p $S
go build -o $S/instr ./instr
$S/instr -os -add $V/hooks/zz_verif_hooks.go -out $S/inst -overlay $S/overlay.json ${VERIF_REPO:-/repo}=github.com/danthegoodman1/bloomsearch=/repo $V/hstore=verif/hstore $V/scen=verif/scen
go build -overlay $S/overlay.json -tags verif,verif_sched -o $S/hsched ./cmd/hsched

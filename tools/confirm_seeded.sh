#!/bin/bash
# usage: confirm_seeded.sh <dir>   (dir has w/ = worktree, out/patch.diff, out/*demo*_test.go or out/demo/)
# Confirms: patch applies to a clean HEAD; suite passes with the change (demo absent);
# demo fails with the change and passes without it. Leaves w/ with the patch applied, demo removed.
D=$1; W=$D/w
export GOTOOLCHAIN=local GOFLAGS=-mod=mod GOPROXY=off PATH=/opt/veriftools/go1.26.8/bin:$PATH
cd $W || exit 2
git checkout -q -- . ; git clean -fdq
git apply $D/out/patch.diff || { echo "PATCH DOES NOT APPLY"; exit 1; }
echo "patch: $(git diff --stat | tail -1)"
for i in 1 2; do s=$(go test -count=1 ./... 2>&1 | tail -1); echo "suite with change (run $i): $s"; done
demo=$(ls $D/out/*_test.go 2>/dev/null | head -1)
if [ -n "$demo" ]; then
  cp $D/out/*_test.go .
  runpat=$(grep -ho "^func Test[A-Za-z0-9_]*" $D/out/*_test.go | sed 's/func //' | paste -sd'|')
  for i in 1 2 3; do d1=$(go test -vet=off -count=1 -run "^($runpat)\$" . 2>&1 | tail -1); echo "demo with change (run $i): $d1"; done
  git apply -R $D/out/patch.diff
  for i in 1 2 3; do d2=$(go test -vet=off -count=1 -run "^($runpat)\$" . 2>&1 | tail -1); echo "demo without change (run $i): $d2"; done
  git apply $D/out/patch.diff
  for f in $D/out/*_test.go; do rm -f $(basename $f); done
else
  echo "no _test.go demo; see $D/out/demo"
fi

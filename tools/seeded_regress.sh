#!/bin/bash
# usage: seeded_regress.sh [tier] [id...]  — for every seeded change (or the ids given): apply it in a scratch
# worktree of /repo, run the registered check of the property it breaks against that tree, report caught/missed.
tier=${1:-quick}; shift
cd /verif
ids="$@"; [ -z "$ids" ] && ids=$(ls seeded | grep -v README)
mkdir -p /tmp/sr
for id in $ids; do
  d=seeded/$id; [ -f $d/patch.diff ] || continue
  props=$(python3 -c "
import json,sys,os,re
m='$d/meta.json'
p=json.load(open(m)).get('property') if os.path.exists(m) else None
if not p:
    p=re.sub('^A-','','$id')
print(' '.join(p if isinstance(p,list) else re.split('[ ,]+',p)))")
  w=/tmp/sr/$id
  git -C /repo worktree remove --force $w >/dev/null 2>&1
  git -C /repo worktree add --detach $w HEAD >/dev/null 2>&1
  if ! git -C $w apply /verif/$d/patch.diff 2>/dev/null; then echo "$id: PATCH DOES NOT APPLY"; git -C /repo worktree remove --force $w; continue; fi
  for p in $props; do
    out=$(VERIF_REPO=$w ./check $p $tier 2>&1)
    n=$(echo "$out" | grep -c "^VIOLATION")
    pr=$(echo "$out" | grep -c "CHECK-PROBLEM")
    first=$(echo "$out" | grep "violation:" | head -1 | cut -c1-220)
    if [ "$n" -gt 0 ]; then echo "$id $p: CAUGHT ($n) $first"; else echo "$id $p: MISSED (problems=$pr)"; fi
    rm -f replays/$p-alt-*
  done
  git -C /repo worktree remove --force $w >/dev/null 2>&1
done

#!/bin/bash
# usage: seed_eval.sh <ID>...  — confirm an agent-seeded change under /tmp/sa/<ID> and run the registered quick check against it
for id in "$@"; do
  /verif/tools/confirm_seeded.sh /tmp/sa/$id > /tmp/sa/results/$id.confirm 2>&1
  /verif/tools/try_mutant.sh $id /tmp/sa/$id/w quick > /tmp/sa/results/$id.txt 2>&1
  rm -f /verif/replays/$id-alt-*
done

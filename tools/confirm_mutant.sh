#!/bin/bash
# usage: confirm_mutant.sh <id>   (worktree /tmp/mut/<id>, deliverables in _out/)
# Confirms: suite passes with the change; demo fails with it and passes without it.
id=$1; W=/tmp/mut/$id
export GOTOOLCHAIN=local GOFLAGS=-mod=mod GOPROXY=off PATH=/opt/veriftools/go1.26.8/bin:$PATH
cd $W || exit 2
demo=$(ls *demo*_test.go 2>/dev/null | head -1)
echo "worktree diff:"; git diff --stat | tail -3
# fresh application of the patch on a clean checkout
git checkout -- . ; git apply _out/patch.diff || { echo "PATCH DOES NOT APPLY"; exit 1; }
mkdir -p /tmp/mut/$id.demo; [ -n "$demo" ] && mv $demo /tmp/mut/$id.demo/
s1=$(go test -vet=off -count=1 ./... 2>&1 | tail -1); echo "suite with change: $s1"
[ -n "$demo" ] && mv /tmp/mut/$id.demo/$demo .
runpat=$(grep -ho "^func Test[A-Za-z0-9_]*" $demo | sed 's/func //' | paste -sd'|')
d1=$(go test -vet=off -count=1 -run "^($runpat)\$" . 2>&1 | tail -1); echo "demo with change: $d1"
git apply -R _out/patch.diff
d2=$(go test -vet=off -count=1 -run "^($runpat)\$" . 2>&1 | tail -1); echo "demo without change: $d2"
git apply _out/patch.diff

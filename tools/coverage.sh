#!/bin/bash
# usage: tools/coverage.sh [scratch]  — statement coverage of the library under the quick tier (a vacuity
# cross-check, no verdict rests on it). The cover tool does not read build overlays, so the instrumented
# copies are materialised as real directories and built in a go.work workspace in which the library copy
# is a main module; every quick check is then run through ./check with VERIF_PREBUILT.
set -e
V=$(cd "$(dirname "$0")/.." && pwd)
S=${1:-/var/tmp/vcov}
export GOTOOLCHAIN=local GOPROXY=off GOSUMDB=off PATH=/opt/veriftools/go1.26.8/bin:$PATH
rm -rf "$S"; mkdir -p "$S/data"
cd "$V"
GOFLAGS=-mod=mod go build -o "$S/instr" ./instr
"$S/instr" -osonly file_system_store.go -add "$V/hooks/zz_verif_hooks.go" -out "$S/seqinst" -overlay "$S/seq-overlay.json" /repo=github.com/danthegoodman1/bloomsearch=/repo
"$S/instr" -os -add "$V/hooks/zz_verif_hooks.go" -out "$S/inst" -overlay "$S/overlay.json" /repo=github.com/danthegoodman1/bloomsearch=/repo "$V/hstore=verif/hstore" "$V/scen=verif/scen"
mat() { # overlay json, suffix
  mkdir -p "$S/r-$2" "$S/v-$2"
  rsync -a --exclude .git /repo/ "$S/r-$2/"
  rsync -a --exclude .git --exclude evidence --exclude seeded --exclude replays "$V/" "$S/v-$2/"
  python3 - "$1" "$2" "$S" "$V" <<'P'
import json,sys,shutil
o=json.load(open(sys.argv[1]))['Replace']; suf,S,V=sys.argv[2:5]
for k,v in o.items():
    dst=(S+'/r-'+suf+k[len('/repo'):]) if k.startswith('/repo/') else (S+'/v-'+suf+k[len(V):])
    shutil.copy(v,dst)
P
  sed -i "s#=> /repo#=> $S/r-$2#" "$S/v-$2/go.mod"
  printf 'go 1.26.0\n\nuse ./v-%s\nuse ./r-%s\n' "$2" "$2" > "$S/go.$2.work"
}
mat "$S/seq-overlay.json" seq; mat "$S/overlay.json" sched
(cd "$S/v-seq" && GOFLAGS= GOWORK="$S/go.seq.work" go build -cover -covermode=atomic -tags verif -o "$S/hseq" ./cmd/hseq)
(cd "$S/v-sched" && GOFLAGS= GOWORK="$S/go.sched.work" go build -cover -covermode=atomic -tags verif,verif_sched -o "$S/hsched" ./cmd/hsched)
for id in $(python3 -c "import sys; sys.path.insert(0,'$V'); import checkcfg; print(' '.join(sorted(checkcfg.PROPS)))"); do
  mkdir -p "$S/data/$id"
  GOCOVERDIR="$S/data/$id" VERIF_PREBUILT="$S" VERIF_REPO=/repo ./check $id quick 2>&1 | grep -E "^part|PROBLEM" | cut -c1-160
  rm -f replays/$id-alt-*
done
# the two binaries have different line numbers: report per function, best of the two
for h in $(ls "$S"/data/*/covmeta.* | sed 's/.*covmeta\.//' | sort -u); do
  mkdir -p "$S/split/$h"; cp -n "$S"/data/*/cov*."$h"* "$S/split/$h/" 2>/dev/null || true
  go tool covdata func -i="$S/split/$h" 2>/dev/null | grep "danthegoodman1/bloomsearch/" | sed 's#github.com/danthegoodman1/bloomsearch/##' > "$S/func-$h.txt"
done
python3 - "$S" <<'P'
import re,collections,glob,sys
best=collections.defaultdict(float)
for f in glob.glob(sys.argv[1]+'/func-*.txt'):
    for l in open(f):
        m=re.match(r'(\S+?):\d+:\s+(\S+)\s+([\d.]+)%',l)
        if m: best[(m.group(1),m.group(2))]=max(best[(m.group(1),m.group(2))],float(m.group(3)))
low=sorted((v,k) for k,v in best.items() if v<75)
print(len(best),'functions;',len(low),'below 75% of statements in both builds')
for v,k in low: print('%5.1f %s %s'%(v,k[0],k[1]))
P

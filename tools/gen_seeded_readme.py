#!/usr/bin/env python3
"""Regenerates seeded/README.md from the meta.json files and the last regression run (seeded/regress-quick.txt)."""
import json, os, re
V = os.path.dirname(os.path.dirname(os.path.abspath(__file__)))
S = os.path.join(V, "seeded")
reg = {}
p = os.path.join(S, "regress-quick.txt")
if os.path.exists(p):
    for l in open(p):
        m = re.match(r"(\S+) (C\d+): (CAUGHT \(\d+\)|MISSED.*?|PATCH DOES NOT APPLY)", l)
        if m:
            reg.setdefault(m.group(1), []).append("%s: %s" % (m.group(2), m.group(3).split("  ")[0].strip()))
def load(prefix):
    out = []
    for d in sorted(os.listdir(S)):
        mp = os.path.join(S, d, "meta.json")
        if d.startswith(prefix) and os.path.exists(mp):
            out.append((d, json.load(open(mp))))
    return out
def esc(s): return str(s).replace("|", "\\|").replace("\n", " ")
L = []
L.append("""# Seeded changes — does each check fail when its property is broken?

Every entry is a change to the repository that compiles and passes the repository's own 269
tests, applied in a scratch git worktree outside `/repo` and checked with the registered check
of the property it breaks (`VERIF_REPO=<worktree> ./check <property> quick`; evidence of such
runs is never written to `/verif/evidence`). `patch.diff` applies to `/repo` at HEAD
(`git apply`). `tools/seeded_regress.sh [tier] [ids]` re-runs the whole collection; the last
column is its most recent result (`seeded/regress-quick.txt`).

Reproduce one: `git -C /repo worktree add --detach /var/tmp/w HEAD && git -C /var/tmp/w apply
/verif/seeded/<id>/patch.diff && /verif/tools/try_mutant.sh <property> /var/tmp/w quick;
git -C /repo worktree remove --force /var/tmp/w`.

Rounds A to E were written by independent sub-agents (one per property and round), each given
only the property's text (later rounds also the mechanisms already used in earlier rounds) and its own
scratch worktree — nothing of `/verif`. Each agent delivered `patch.diff`, a demonstration
(`zz_seeded_demo_test.go`, failing with the change and passing without) and `NOTES.md`; each was
re-confirmed with `tools/confirm_seeded.sh` before it was kept.
""")
for title, prefix in (("Round A (agents, one per property)", "A-"), ("Round B (agents, different mechanism)", "B-"), ("Round C (agents, a third mechanism)", "C-"), ("Round D (agents, a fourth mechanism)", "D-"), ("Round E (agents, 12 properties, a fifth mechanism)", "E-")):
    rows = load(prefix)
    caught = sum(1 for _, m in rows if m.get("result", "").startswith("caught as delivered"))
    L.append("## %s — %d changes, %d caught by the quick tier as delivered, %d after strengthening the check\n" % (title, len(rows), caught, len(rows) - caught))
    L.append("| id | property | change | needs | first result → what changed | last regression |")
    L.append("|---|---|---|---|---|---|")
    for d, m in rows:
        L.append("| %s | %s | %s | %s | %s | %s |" % (d, esc(m["property"]), esc(m["what"]), esc(m["needs"]), esc(m["result"]), esc("; ".join(reg.get(d, ["-"])))))
    L.append("")
L.append("## Reverts of the repository fixes (the defects the checks found)\n")
L.append("| id | property | change | last regression |")
L.append("|---|---|---|---|")
for d, m in load("revert-"):
    L.append("| %s | %s | %s | %s |" % (d, esc(m["property"]), esc(m.get("kind", "") + ": " + m.get("what", "")), esc("; ".join(reg.get(d, ["-"])))))
L.append("\n## Hand-made changes (earlier sessions)\n")
L.append("| id | property | change | last regression |")
L.append("|---|---|---|---|")
for d, m in load("M"):
    L.append("| %s | %s | %s | %s |" % (d, esc(m["property"]), esc(m.get("what", "")), esc("; ".join(reg.get(d, ["-"])))))
L.append("""
## Notes

* M9b (C19) and M13b (C22) were missed when first tried and changed the machinery (framing
  oracle; the explorer's state key now advances at harness points) — DESIGN §7.
* Candidates that turned out not to break their property (M3: the cumulative limit check
  re-imposes both limits; M15: touches the in-package reference walker only) and fourteen
  candidates the repository's own tests already catch are not kept.
* Under heavy machine load a timing-sensitive test of the repository occasionally fails with
  B-C08 / B-C10 applied (1 of 2 runs); both pass when re-run and pass 3/3 for their authors.
""")
open(os.path.join(S, "README.md"), "w").write("\n".join(L))
print("seeded/README.md written:", sum(len(load(p)) for p in ("A-", "B-", "C-", "revert-", "M")), "entries")

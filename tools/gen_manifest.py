#!/usr/bin/env python3
import json, os, sys
V = os.path.dirname(os.path.dirname(os.path.abspath(__file__)))
sys.path.insert(0, V)
from checkcfg import PROPS, NOT_YET
ids = [json.loads(l)["id"] for l in open(os.path.join(V, "properties.jsonl"))]
checks = []
for pid in ids:
    if pid not in PROPS:
        continue
    s = PROPS[pid]
    checks.append({
        "property_id": pid,
        "quick_cmd": "./check %s quick" % pid,
        "thorough_cmd": "./check %s thorough" % pid,
        "evidence_file": "/verif/evidence/%s.json" % pid,
        "replay_cmd_template": "./check %s --replay {path}" % pid,
        "engine": "+".join(sorted({p["engine"] for p in s["parts"]})),
        "level_claimed": {"category": s["level"], "text": s["text"], "design_ref": s.get("design_ref", "")},
        "level_note": s["note"],
        "technique": s["technique"],
    })
na = [{"property_id": pid, "reason": NOT_YET.get(pid, "check not built yet in this session (see DESIGN.md for the planned model-checking design); not claimed")}
      for pid in ids if pid not in PROPS]
m = {
    "version": 1,
    "setup_cmd": "./setup.sh",
    "hooks": {
        "guard": "verif",
        "enable": "no hook lives in /repo: checks build /repo's working tree through `go build -overlay` with files rewritten by /verif/instr (channel/select/go/sync/atomic/context/time/rand/os swapped for scheduler-aware shims) under the build tags verif,verif_sched; the plain harness builds /repo unmodified",
        "baseline_off_cmd": "cd /repo && go test -vet=off -count=1 -timeout 25m ./...",
        "source_commits": [],
        "add_only": True,
    },
    "engines": [
        {"name": "sched", "path": "/verif/vrt + /verif/explore + /verif/instr + /verif/scen", "serves_properties": [p for p in ids if p in PROPS and any(x["engine"] == "sched" for x in PROPS[p]["parts"])],
         "kind_free_text": "hand-written stateless model checker: source instrumenter + cooperative scheduler over the real goroutines, deviation-bounded DFS with trace-equivalence state pruning, process-sharded"},
        {"name": "seq", "path": "/verif/cmd/hseq + /verif/refmodel", "serves_properties": [p for p in ids if p in PROPS and any(x["engine"] == "seq" for x in PROPS[p]["parts"])],
         "kind_free_text": "bounded-exhaustive enumeration of inputs, operation histories (BFS with canonical-state dedup), fault positions and crash points on the plain build, against independent reference models"},
    ],
    "checks": checks,
    "not_applicable": na,
    "notes": "All checks rebuild from /repo's working tree into a private scratch directory under /var/tmp that is removed on exit. Known findings: /verif/known_findings.json.",
}
json.dump(m, open(os.path.join(V, "MANIFEST.json"), "w"), indent=1)
print("checks:", len(checks), "not_applicable:", len(na))

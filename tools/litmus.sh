#!/bin/bash
# Conformance of the shim runtime to the real Go runtime: every outcome the real runtime
# produces for a litmus program must be among the outcomes the explorer enumerates.
set -e
S=$(mktemp -d /var/tmp/vlitmus.XXXXXX); trap 'rm -rf "$S"' EXIT
export GOTOOLCHAIN=local GOFLAGS=-mod=mod GOPROXY=off GOSUMDB=off PATH=/opt/veriftools/go1.26.8/bin:$PATH
cd "$(dirname "$0")/.."
./build_sched.sh $S >/dev/null 2>&1
$S/hsched -prop LITMUS -tier quick -out $S/sched.json >/dev/null
./build_seq.sh $S >/dev/null 2>&1
go build -overlay $S/seq-overlay.json -tags verif -o $S/litmus ./cmd/litmus
$S/litmus > $S/real.json
python3 - $S <<'PY'
import json,sys
S=sys.argv[1]
sched=json.load(open(S+'/sched.json'))['scenarios']; real=json.load(open(S+'/real.json'))
bad=0
for name in sorted(real):
    e=set((sched[name].get('log_tails') or {}).keys()); r=set(real[name].keys())
    ok = r <= e and not sched[name].get('violations')
    print("%-32s real=%s explored=%s %s" % (name, sorted(x[8:] for x in r), sorted(x[8:] for x in e), "ok" if ok else "MISMATCH"))
    bad += 0 if ok else 1
print("litmus programs:", len(real), "mismatches:", bad)
sys.exit(1 if bad else 0)
PY

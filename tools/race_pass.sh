#!/bin/bash
# Auxiliary free-running -race pass over the scenario bodies (sampling; not a deciding step).
# Prints the data races whose two accesses are both inside the package under test.
S=$(mktemp -d /var/tmp/vrace.XXXXXX); trap 'rm -rf "$S"' EXIT
export GOTOOLCHAIN=local GOFLAGS=-mod=mod GOPROXY=off GOSUMDB=off PATH=/opt/veriftools/go1.26.8/bin:$PATH
cd "$(dirname "$0")/.."
./build_seq.sh $S >/dev/null 2>&1 || { echo "build failed"; exit 0; }
go build -race -overlay $S/seq-overlay.json -tags verif -o $S/frace ./cmd/frace || exit 0
GORACE="halt_on_error=0 history_size=3" timeout 1500 $S/frace -n ${1:-15} > $S/out.txt 2>&1
python3 - $S/out.txt <<'PY'
import re,sys
t=open(sys.argv[1]).read()
reps=t.split("WARNING: DATA RACE")[1:]
eng=0; sigs={}
for r in reps:
    r=r.split("==================")[0]
    # the first frame after each "Read at/Write at/Previous read/Previous write" header
    tops=re.findall(r"(?:Read|Write|Previous read|Previous write) (?:at|by)[^\n]*\n\s+(\S+)\(", r)
    tops=tops[:2]
    if len(tops)==2 and all("danthegoodman1/bloomsearch" in x for x in tops):
        eng+=1; sigs[" <-> ".join(sorted(tops))]=sigs.get(" <-> ".join(sorted(tops)),0)+1
print(t.strip().splitlines()[-1] if t.strip() else "")
print("race reports: %d total, %d with both accesses inside github.com/danthegoodman1/bloomsearch" % (len(reps), eng))
for s,n in sorted(sigs.items()): print("  %4d  %s" % (n,s))
PY

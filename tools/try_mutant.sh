#!/bin/bash
# usage: try_mutant.sh <property-id> <tree-with-change> [tier]
# Runs the registered check of <property-id> against another tree (VERIF_REPO) without
# touching /repo. Prints the check's verdict lines.
id=$1; tree=$2; tier=${3:-quick}
cd /verif
VERIF_REPO=$tree ./check $id $tier 2>&1 | grep -E "VIOLATION|violation:|PROBLEM|KNOWN|part " | cut -c1-400

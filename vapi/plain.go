//go:build !verif_sched

// Package vapi is the small harness API shared by the plain build (free-running
// goroutines; stubs) and the controlled build (vrt).
package vapi

import (
	"fmt"
	"sync"
	"sync/atomic"
	"time"
)

const Controlled = false

var (
	mu       sync.Mutex
	logBuf   []string
	failures []string
	// FaultPlan, when set, decides Fault calls in the plain build (E3).
	FaultPlan func(site string) bool
)

func Reset() {
	mu.Lock()
	logBuf, failures = nil, nil
	mu.Unlock()
}

func Log(format string, a ...any) {
	mu.Lock()
	logBuf = append(logBuf, fmt.Sprintf(format, a...))
	mu.Unlock()
}

func Fail(format string, a ...any) {
	mu.Lock()
	failures = append(failures, fmt.Sprintf(format, a...))
	mu.Unlock()
}

func Failures() []string {
	mu.Lock()
	defer mu.Unlock()
	return append([]string(nil), failures...)
}

func LogSnapshot() []string {
	mu.Lock()
	defer mu.Unlock()
	return append([]string(nil), logBuf...)
}

func Point(kind string)         {}
func PointExternal(kind string) {}
func Quiesce()          { time.Sleep(30 * time.Millisecond) }
func Yield()            {}

func Fault(site string) bool {
	if FaultPlan != nil {
		return FaultPlan(site)
	}
	return false
}

func Choose(label string, n int) int { return 0 }
func LiveTasks() []string            { return nil }
func VNowNanos() int64               { return 0 }
func TaskName() string               { return "" }

// Counter is a shared counter: a plain word under the controlled scheduler (no extra
// scheduling points), an atomic in the free-running build.
type Counter struct{ v atomic.Int64 }

func (c *Counter) Add(d int64) int64 { return c.v.Add(d) }
func (c *Counter) Load() int64       { return c.v.Load() }

// Cell holds a value shared between harness tasks without adding scheduling points.
type Cell[T any] struct {
	mu  sync.Mutex
	v   T
	set bool
}

func (c *Cell[T]) Set(v T) { c.mu.Lock(); c.v, c.set = v, true; c.mu.Unlock() }
func (c *Cell[T]) Get() (T, bool) {
	c.mu.Lock()
	defer c.mu.Unlock()
	return c.v, c.set
}

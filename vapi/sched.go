//go:build verif_sched

// Package vapi is the small harness API shared by the plain build (free-running
// goroutines; stubs) and the controlled build (vrt).
package vapi

import (
	"fmt"

	"verif/vrt"
)

// Controlled reports whether the scenario runs under the controlled scheduler.
const Controlled = true

func Log(format string, a ...any)  { vrt.Log(fmt.Sprintf(format, a...)) }
func Fail(format string, a ...any) { vrt.Fail(fmt.Sprintf(format, a...)) }
func LogSnapshot() []string        { return vrt.LogSnapshot() }
func Point(kind string)            { vrt.PointOp(kind) }
func PointExternal(kind string)    { vrt.PointExternal(kind) }
func Quiesce()                     { vrt.Quiesce() }
func Yield()                       { vrt.Yield() }

// Fault is an environment choice: default false; true costs one fault deviation.
func Fault(site string) bool { return vrt.Choose("fault:"+site, 2, vrt.ClassFault) == 1 }

// Choose is a scheduling-class environment choice with n options.
func Choose(label string, n int) int { return vrt.Choose(label, n, vrt.ClassSched) }

func LiveTasks() []string { return vrt.LiveTasks() }
func VNowNanos() int64    { return int64(vrt.VNow()) }
func TaskName() string    { return vrt.TaskName() }

// Counter is a shared counter: a plain word under the controlled scheduler (no extra
// scheduling points), an atomic in the free-running build.
type Counter struct{ v int64 }

func (c *Counter) Add(d int64) int64 { c.v += d; return c.v }
func (c *Counter) Load() int64       { return c.v }

// Cell holds a value shared between harness tasks without adding scheduling points.
type Cell[T any] struct {
	v   T
	set bool
}

func (c *Cell[T]) Set(v T)        { c.v, c.set = v, true }
func (c *Cell[T]) Get() (T, bool) { return c.v, c.set }

#!/bin/bash
# Builds the framework once and warms the Go build cache (offline).
set -e
V=$(cd "$(dirname "$0")" && pwd)
cd $V
export GOTOOLCHAIN=local GOFLAGS=-mod=mod GOPROXY=off GOSUMDB=off PATH=/opt/veriftools/go1.26.8/bin:$PATH
S=$(mktemp -d /var/tmp/vsetup.XXXXXX)
trap 'rm -rf "$S"' EXIT
go build ./vrt/... ./explore/... ./instr/... ./vapi/... ./hstore/...
./build_sched.sh "$S" 
./build_seq.sh "$S"
echo setup ok

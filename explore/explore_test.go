package explore

import (
	"testing"
	"time"

	"verif/vrt"
	vsync "verif/vrt/sync"
	vatomic "verif/vrt/sync/atomic"
	vctx "verif/vrt/context"
	vtime "verif/vrt/time"
)

// lost update: two tasks do load;store on an atomic — needs 1 preemption.
func TestLostUpdate(t *testing.T) {
	root := func() {
		var x vatomic.Int64
		var wg vsync.WaitGroup
		for i := 0; i < 2; i++ {
			wg.Add(1)
			vrt.Go(func() {
				defer wg.Done()
				v := x.Load()
				x.Store(v + 1)
			})
		}
		wg.Wait()
		if x.Load() != 2 {
			vrt.Fail("lost update")
		}
	}
	r0 := Explore(Config{Name: "lu0", Root: root, Bounds: Bounds{Sched: 0}})
	if len(r0.Violations) != 0 {
		t.Fatalf("pb0 should not find: %+v", r0.Violations)
	}
	r1 := Explore(Config{Name: "lu1", Root: root, Bounds: Bounds{Sched: 1}})
	if len(r1.Violations) == 0 {
		t.Fatalf("pb1 should find lost update; execs=%d", r1.Executions)
	}
	t.Logf("pb0 execs=%d states=%d; pb1 execs=%d states=%d pruned=%d viol=%d", r0.Executions, r0.States, r1.Executions, r1.States, r1.Pruned, len(r1.Violations))
	// replay determinism
	v := r1.Violations[0]
	for i := 0; i < 3; i++ {
		x := RunOne(Config{Root: root}, v.Choices, false)
		if len(x.Failures) == 0 {
			t.Fatalf("replay %d did not fail", i)
		}
	}
}

// AB-BA deadlock needs one preemption.
func TestDeadlock(t *testing.T) {
	root := func() {
		var a, b vsync.Mutex
		done := vrt.MakeChan[int](2)
		vrt.Go(func() { a.Lock(); b.Lock(); b.Unlock(); a.Unlock(); done.Send(1) })
		vrt.Go(func() { b.Lock(); a.Lock(); a.Unlock(); b.Unlock(); done.Send(2) })
		done.Recv()
		done.Recv()
	}
	r := Explore(Config{Name: "dl", Root: root, Bounds: Bounds{Sched: 1}})
	found := false
	for _, v := range r.Violations {
		if v.Outcome == "deadlock" {
			found = true
		}
	}
	if !found {
		t.Fatalf("deadlock not found: %+v", r)
	}
	t.Logf("execs=%d states=%d", r.Executions, r.States)
}

// unbuffered rendezvous + select + context timeout on virtual time.
func TestSelectTimeout(t *testing.T) {
	outcomes := map[string]int{}
	root := func() {
		ctx, cancel := vctx.WithTimeout(vctx.Background(), 50*vtime.Millisecond)
		defer cancel()
		ch := vrt.MakeChan[int]()
		vrt.Go(func() {
			vtime.Sleep(50 * vtime.Millisecond)
			switch vrt.Select(false, vrt.SendCase(ch, 7), vrt.RecvCase(ctx.Done())) {
			}
		})
		rc := vrt.RecvCase(ch)
		switch vrt.Select(false, rc, vrt.RecvCase(ctx.Done())) {
		case 0:
			vrt.Log("got")
		case 1:
			vrt.Log("timeout")
		}
	}
	r := Explore(Config{Name: "st", Root: root, Bounds: Bounds{Sched: 2}, Horizon: time.Second,
		OnExec: func(x *vrt.Execution, _ []int) {
			if len(x.Log) > 0 {
				outcomes[x.Log[0]]++
			} else {
				outcomes[x.Outcome.String()+x.Detail]++
			}
		}})
	if len(r.Violations) != 0 {
		t.Fatalf("unexpected violations %+v", r.Violations)
	}
	if outcomes["got"] == 0 || outcomes["timeout"] == 0 {
		t.Fatalf("expected both outcomes, got %v", outcomes)
	}
	t.Logf("outcomes=%v execs=%d", outcomes, r.Executions)
}

func TestRWMutexWriterPreference(t *testing.T) {
	// reader holds RLock; writer announces; a second reader must not get in before the writer.
	root := func() {
		var mu vsync.RWMutex
		order := vrt.MakeChan[string](4)
		mu.RLock()
		vrt.Go(func() { mu.Lock(); order.Send("w"); mu.Unlock() })
		vrt.Yield()
		vrt.Go(func() { mu.RLock(); order.Send("r"); mu.RUnlock() })
		vrt.Yield()
		mu.RUnlock()
		a := order.Recv()
		b := order.Recv()
		vrt.Log(a + b)
	}
	seen := map[string]int{}
	r := Explore(Config{Name: "rw", Root: root, Bounds: Bounds{Sched: 3},
		OnExec: func(x *vrt.Execution, _ []int) {
			if len(x.Log) > 0 {
				seen[x.Log[0]]++
			}
		}})
	if len(r.Violations) != 0 {
		t.Fatalf("violations: %+v", r.Violations)
	}
	if seen["wr"] == 0 || seen["rw"] == 0 {
		t.Fatalf("expected both orders (second reader may arrive before the writer announces): %v", seen)
	}
	t.Logf("%v execs=%d", seen, r.Executions)
}

// A harness gauge spanning a PointOp: the state "parked inside the gauged section" must not
// share a key with "parked at the next operation", or pruning hides the overlap. The
// pruned exploration must report a violation exactly when the unpruned one does, for
// every bound (regression for the missed seeded change M13b).
func TestPointOpIsKeyed(t *testing.T) {
	root := func() {
		var wg vsync.WaitGroup
		var x vatomic.Int64
		gauge := 0
		for i := 0; i < 2; i++ {
			wg.Add(1)
			vrt.Go(func() {
				defer wg.Done()
				x.Add(1)
				gauge++
				if gauge > 1 {
					vrt.Fail("overlap")
				}
				vrt.PointOp("in-section")
				gauge--
				x.Add(1)
				x.Add(1)
			})
		}
		wg.Wait()
	}
	// an execution never visits a state twice, so the keys along it are pairwise distinct
	x := RunOne(Config{Root: root}, nil, false)
	seen := map[uint64]int{}
	for i, p := range x.Points {
		if j, dup := seen[p.Key]; dup {
			t.Fatalf("points %d and %d of the default execution share state key %x", j, i, p.Key)
		}
		seen[p.Key] = i
	}
	if len(x.Points) < 4 {
		t.Fatalf("only %d choice points: the harness does not exercise the point", len(x.Points))
	}
	for _, delay := range []bool{false, true} {
		for b := 0; b <= 3; b++ {
			pr := Explore(Config{Name: "g", Root: root, Bounds: Bounds{Sched: b}, DelayBound: delay})
			np := Explore(Config{Name: "g", Root: root, Bounds: Bounds{Sched: b}, DelayBound: delay, NoPrune: true})
			if (len(pr.Violations) > 0) != (len(np.Violations) > 0) {
				t.Fatalf("delay=%v bound %d: pruned exploration finds %d violations in %d executions, unpruned %d in %d",
					delay, b, len(pr.Violations), pr.Executions, len(np.Violations), np.Executions)
			}
		}
	}
}

// Package explore is the stateless depth-first explorer of engine E1: it re-executes a
// scenario under vrt for every choice prefix whose deviations stay within the bounds,
// pruning subtrees whose start state (trace-equivalence key) was already expanded with
// at least the same remaining budget.
package explore

import (
	"encoding/json"
	"fmt"
	"os"
	"sort"
	"strings"
	"time"

	"verif/vrt"
)

// Bounds limit the deviations of one execution per cost class.
type Bounds struct {
	Sched int // preemptions + non-first select cases + early timers
	Fault int // injected faults / environment deviations
}

// Config of one exploration.
type Config struct {
	Name       string
	Root       func()
	Bounds     Bounds
	Horizon    time.Duration
	MaxSteps   int
	PoolPoints bool
	DelayBound bool
	SelectFree bool
	LazyTime   bool
	NoPrune    bool
	Deadline   time.Time // wall-clock cap; zero = none
	MaxExec    int64     // execution cap; 0 = none
	Shard      int       // this worker's index
	Shards     int       // number of workers (0/1 = no sharding)
	OnExec     func(x *vrt.Execution, choices []int)
	StopOnFail bool
}

// Violation is one failing execution.
type Violation struct {
	Choices  []int    `json:"choices"`
	Outcome  string   `json:"outcome"`
	Detail   string   `json:"detail,omitempty"`
	Failures []string `json:"failures,omitempty"`
	Log      []string `json:"log,omitempty"`
	Sched    int      `json:"sched_deviations"`
	Fault    int      `json:"fault_deviations"`
}

// Result aggregates an exploration.
type Result struct {
	Name         string         `json:"name"`
	Executions   int64          `json:"executions"`
	Steps        int64          `json:"steps"`
	Points       int64          `json:"choice_points"`
	States       int64          `json:"distinct_state_keys"`
	Pruned       int64          `json:"pruned_subtrees"`
	Aborted      int64          `json:"executions_cut_short"`
	MaxDepth     int            `json:"max_depth"`
	MaxTasks     int            `json:"max_tasks"`
	Outcomes     map[string]int `json:"outcomes"`
	LogDigests   int            `json:"distinct_log_digests"`
	FinalStates  int            `json:"distinct_final_states"`
	Exhaustive   bool           `json:"exhaustive"`
	CapHit       string         `json:"cap_hit,omitempty"`
	Violations   []Violation    `json:"violations,omitempty"`
	Internal     []string       `json:"internal_errors,omitempty"`
	Bounds       Bounds         `json:"bounds"`
	WallS        float64        `json:"wall_s"`
	SampleLog    []string       `json:"sample_log,omitempty"`
	SampleTrace  []int          `json:"sample_choices,omitempty"`
	LogTails     map[string]int `json:"log_tails,omitempty"` // last log line of every execution (litmus outcome sets)
	digests      map[uint64]struct{}
	finals       map[uint64]struct{}
}

type budget struct{ s, f int }

type explorer struct {
	leftAfter budget // budget left after the prefix of the execution being started
	sigs      map[string]int
	cfg   Config
	res   *Result
	seen  map[uint64][]budget
	start time.Time
	stop  bool
	items int64 // level-1 work item counter for sharding
}

func fnv(ss []string) uint64 {
	h := uint64(14695981039346656037)
	for _, s := range ss {
		for i := 0; i < len(s); i++ {
			h ^= uint64(s[i])
			h *= 1099511628211
		}
		h ^= 0xff
		h *= 1099511628211
	}
	return h
}

// RunOne executes the scenario once with the given choice prefix (defaults after it).
func RunOne(cfg Config, prefix []int, trace bool) *vrt.Execution {
	return runOne(cfg, prefix, trace, nil)
}

// runOne: cut, when set, is consulted at the first choice point after the prefix and may
// abort the execution (its start state was already expanded with at least this budget).
func runOne(cfg Config, prefix []int, trace bool, cut func(p *vrt.Point) bool) *vrt.Execution {
	diverged := ""
	x := vrt.Run(cfg.Root, vrt.Options{
		Horizon: cfg.Horizon, MaxSteps: cfg.MaxSteps, PoolPoints: cfg.PoolPoints,
		DelayBound: cfg.DelayBound, SelectFree: cfg.SelectFree, Trace: trace, LazyTime: cfg.LazyTime,
		Chooser: func(i int, p *vrt.Point) int {
			if i < len(prefix) {
				if prefix[i] >= len(p.Alts) && diverged == "" {
					diverged = fmt.Sprintf("prefix choice %d=%d but only %d options", i, prefix[i], len(p.Alts))
				}
				return prefix[i]
			}
			if i == len(prefix) && cut != nil && cut(p) {
				return vrt.AbortChoice
			}
			return 0
		},
	})
	if diverged != "" && x.Outcome != vrt.OutcomeInternal {
		x.Outcome = vrt.OutcomeInternal
		x.Detail = diverged
	}
	return x
}

// Explore runs the bounded exhaustive exploration.
func Explore(cfg Config) *Result {
	e := &explorer{cfg: cfg, seen: map[uint64][]budget{}, start: time.Now()}
	e.res = &Result{Name: cfg.Name, Outcomes: map[string]int{}, Exhaustive: true, Bounds: cfg.Bounds,
		digests: map[uint64]struct{}{}, finals: map[uint64]struct{}{}}
	e.explore(nil, 0)
	e.res.States = int64(len(e.seen))
	e.res.LogDigests = len(e.res.digests)
	e.res.FinalStates = len(e.res.finals)
	e.res.WallS = time.Since(e.start).Seconds()
	return e.res
}

func (e *explorer) dominated(key uint64, b budget) bool {
	if e.cfg.NoPrune {
		return false
	}
	for _, o := range e.seen[key] {
		if o.s >= b.s && o.f >= b.f {
			return true
		}
	}
	return false
}

func (e *explorer) record(key uint64, b budget) {
	if e.cfg.NoPrune {
		e.seen[key] = nil
		return
	}
	old := e.seen[key]
	out := old[:0]
	for _, o := range old {
		if !(b.s >= o.s && b.f >= o.f) {
			out = append(out, o)
		}
	}
	e.seen[key] = append(out, b)
}

func (e *explorer) capped() bool {
	if e.stop {
		return true
	}
	if !e.cfg.Deadline.IsZero() && time.Now().After(e.cfg.Deadline) {
		e.res.Exhaustive = false
		e.res.CapHit = "wall-clock cap"
		e.stop = true
		return true
	}
	if e.cfg.MaxExec > 0 && e.res.Executions >= e.cfg.MaxExec {
		e.res.Exhaustive = false
		e.res.CapHit = fmt.Sprintf("execution cap %d", e.cfg.MaxExec)
		e.stop = true
		return true
	}
	return false
}

func (e *explorer) explore(prefix []int, depth int) {
	if e.capped() {
		return
	}
	var cut func(p *vrt.Point) bool
	if len(prefix) > 0 && !e.cfg.NoPrune {
		cut = func(p *vrt.Point) bool { return e.dominated(p.Key, e.leftAfter) }
	}
	x := runOne(e.cfg, prefix, false, cut)
	if x.Outcome == vrt.OutcomeAborted {
		e.res.Pruned++
		e.res.Aborted++
		e.res.Steps += int64(x.Steps)
		if len(x.Failures) == 0 {
			return
		}
	}
	e.res.Executions++
	e.res.Steps += int64(x.Steps)
	e.res.Points += int64(len(x.Points))
	if len(x.Points) > e.res.MaxDepth {
		e.res.MaxDepth = len(x.Points)
	}
	if x.Tasks > e.res.MaxTasks {
		e.res.MaxTasks = x.Tasks
	}
	e.res.Outcomes[x.Outcome.String()]++
	e.res.digests[fnv(x.Log)] = struct{}{}
	if n := len(x.Log); n > 0 && len(e.res.LogTails) < 64 {
		if e.res.LogTails == nil {
			e.res.LogTails = map[string]int{}
		}
		e.res.LogTails[x.Log[n-1]]++
	}
	e.res.finals[x.FinalKey] = struct{}{}
	choices := make([]int, len(x.Points))
	for i := range x.Points {
		choices[i] = x.Points[i].Taken
	}
	if e.res.Executions == 1 {
		e.res.SampleLog = x.Log
		e.res.SampleTrace = choices
	}
	if e.cfg.OnExec != nil {
		e.cfg.OnExec(x, choices)
	}
	if x.Outcome == vrt.OutcomeInternal {
		e.res.Internal = append(e.res.Internal, fmt.Sprintf("%v: %s", prefix, x.Detail))
		e.res.Exhaustive = false
		return
	}
	if x.Outcome == vrt.OutcomeSteps {
		e.res.Exhaustive = false
		e.res.CapHit = "step cap in an execution (possible livelock): " + x.Detail
	}
	if (x.Outcome != vrt.OutcomeOK && x.Outcome != vrt.OutcomeAborted) || len(x.Failures) > 0 {
		s, f := spent(x, len(x.Points))
		sig := x.Outcome.String() + "|" + strings.Join(x.Failures, "|")
		if x.Outcome != vrt.OutcomeOK && len(x.Failures) == 0 {
			sig += strings.SplitN(x.Detail, "\n", 2)[0]
		}
		if e.sigs == nil {
			e.sigs = map[string]int{}
		}
		e.sigs[sig]++
		// keep the first (fewest-deviation) executions of every distinct failure signature
		if e.sigs[sig] <= 2 && len(e.res.Violations) < 60 {
			e.res.Violations = append(e.res.Violations, Violation{Choices: trim(choices), Outcome: x.Outcome.String(),
				Detail: x.Detail, Failures: x.Failures, Log: x.Log, Sched: s, Fault: f})
		}
		if e.cfg.StopOnFail {
			e.stop = true
			return
		}
	}
	// Branch on every later point.
	sUsed, fUsed := spent(x, len(prefix))
	for i := len(prefix); i < len(x.Points); i++ {
		p := &x.Points[i]
		left := budget{e.cfg.Bounds.Sched - sUsed, e.cfg.Bounds.Fault - fUsed}
		if e.dominated(p.Key, left) {
			e.res.Pruned++
			break // everything from this state on was explored with at least this budget
		}
		e.record(p.Key, left)
		for alt := 1; alt < len(p.Alts); alt++ {
			a := p.Alts[alt]
			ns, nf := sUsed, fUsed
			if a.Class == vrt.ClassFault {
				nf += int(a.Cost)
			} else {
				ns += int(a.Cost)
			}
			if ns > e.cfg.Bounds.Sched || nf > e.cfg.Bounds.Fault {
				continue
			}
			if depth == 0 && e.cfg.Shards > 1 {
				e.items++
				if int(e.items%int64(e.cfg.Shards)) != e.cfg.Shard {
					continue
				}
			}
			np := make([]int, i+1)
			copy(np, choices[:i])
			np[i] = alt
			e.leftAfter = budget{e.cfg.Bounds.Sched - ns, e.cfg.Bounds.Fault - nf}
			e.explore(np, depth+1)
			if e.stop {
				return
			}
		}
		// account for the default choice taken at point i
		a := p.Alts[p.Taken]
		if a.Class == vrt.ClassFault {
			fUsed += int(a.Cost)
		} else {
			sUsed += int(a.Cost)
		}
	}
}

// spent sums the costs of the choices taken at points [0, n).
func spent(x *vrt.Execution, n int) (s, f int) {
	for i := 0; i < n && i < len(x.Points); i++ {
		a := x.Points[i].Alts[x.Points[i].Taken]
		if a.Class == vrt.ClassFault {
			f += int(a.Cost)
		} else {
			s += int(a.Cost)
		}
	}
	return
}

func trim(c []int) []int {
	n := len(c)
	for n > 0 && c[n-1] == 0 {
		n--
	}
	return append([]int(nil), c[:n]...)
}

// Merge folds shard results into one.
func Merge(rs []*Result) *Result {
	out := &Result{Outcomes: map[string]int{}, Exhaustive: true}
	for i, r := range rs {
		if i == 0 {
			out.Name, out.Bounds, out.SampleLog, out.SampleTrace = r.Name, r.Bounds, r.SampleLog, r.SampleTrace
		}
		out.Executions += r.Executions
		out.Steps += r.Steps
		out.Points += r.Points
		out.States += r.States
		out.Pruned += r.Pruned
		out.Aborted += r.Aborted
		if r.MaxDepth > out.MaxDepth {
			out.MaxDepth = r.MaxDepth
		}
		if r.MaxTasks > out.MaxTasks {
			out.MaxTasks = r.MaxTasks
		}
		for k, v := range r.Outcomes {
			out.Outcomes[k] += v
		}
		for k, v := range r.LogTails {
			if out.LogTails == nil {
				out.LogTails = map[string]int{}
			}
			out.LogTails[k] += v
		}
		if r.LogDigests > out.LogDigests {
			out.LogDigests = r.LogDigests
		}
		if r.FinalStates > out.FinalStates {
			out.FinalStates = r.FinalStates
		}
		if !r.Exhaustive {
			out.Exhaustive = false
			if out.CapHit == "" {
				out.CapHit = r.CapHit
			}
		}
		out.Violations = append(out.Violations, r.Violations...)
		out.Internal = append(out.Internal, r.Internal...)
		if r.WallS > out.WallS {
			out.WallS = r.WallS
		}
	}
	sort.SliceStable(out.Violations, func(i, j int) bool {
		a, b := out.Violations[i], out.Violations[j]
		if a.Sched+a.Fault != b.Sched+b.Fault {
			return a.Sched+a.Fault < b.Sched+b.Fault
		}
		return len(a.Choices) < len(b.Choices)
	})
	return out
}

// WriteJSON writes v to path.
func WriteJSON(path string, v any) error {
	b, err := json.MarshalIndent(v, "", " ")
	if err != nil {
		return err
	}
	return os.WriteFile(path, b, 0o644)
}

// FormatChoices renders a choice list compactly.
func FormatChoices(c []int) string {
	var b strings.Builder
	for i, v := range c {
		if i > 0 {
			b.WriteByte(',')
		}
		fmt.Fprintf(&b, "%d", v)
	}
	return b.String()
}

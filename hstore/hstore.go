// Package hstore holds the deterministic in-memory DataStore and MetaStore used by the
// harnesses. It is plain Go: the plain build uses it as is, the controlled build runs it
// through the instrumenter so that its mutexes and contexts are scheduler-aware. Every
// store call goes through the Hook, where scenarios log, gate, fail or yield.
package hstore

import (
	"bytes"
	"context"
	"errors"
	"fmt"
	"io"
	"io/fs"
	"iter"
	"sort"
	"sync"

	bs "github.com/danthegoodman1/bloomsearch"
)

// Hook observes a store call. Enter runs before the call takes effect and may return an
// error that fails the call (nothing is applied); Exit runs when the call returns.
type Hook struct {
	Enter func(op, ptr string, n int) error
	Exit  func(op, ptr string, err error)
	// EnterCtx, when set, is used instead of Enter for the calls that carry a context
	// (CreateFile, OpenFile, TombstoneFile, Update), so a store can honour cancellation.
	EnterCtx func(ctx context.Context, op, ptr string, n int) error
}

func (h *Hook) enterCtx(ctx context.Context, op, ptr string, n int) error {
	if h != nil && h.EnterCtx != nil {
		return h.EnterCtx(ctx, op, ptr, n)
	}
	return h.enter(op, ptr, n)
}

func (h *Hook) enter(op, ptr string, n int) error {
	if h != nil && h.Enter != nil {
		return h.Enter(op, ptr, n)
	}
	return nil
}

func (h *Hook) exit(op, ptr string, err error) {
	if h != nil && h.Exit != nil {
		h.Exit(op, ptr, err)
	}
}

// MemData is an in-memory DataStore. Pointers are "f1", "f2", ... in creation order.
type MemData struct {
	mu    sync.Mutex
	files map[string][]byte // published files
	tomb  map[string]bool
	seq   int
	Hook  *Hook

	WithAbort  bool // writers implement Abort
	ObjectLike bool // reads through an open handle fail once the file is tombstoned
	ShortWrite bool // a failing Write applies half of the bytes first
	DeferredGC bool // TombstoneFile only marks the file; its bytes stay readable (garbage collected later)
	// CtxAwareReads: handles honour the context OpenFile was called with — a Read (or Seek)
	// on a handle whose context has ended fails with that context's error (an object store
	// client aborting an in-flight request).
	CtxAwareReads bool

	// ReadLog, when set, observes every Read of every handle (offset before the read, bytes read).
	ReadLog func(ptr string, off int64, n int)

	// accounting
	Opens, Closes int
	Handles       []*MemHandle
	Writers       []*MemWriter
}

func NewMemData() *MemData {
	return &MemData{files: map[string][]byte{}, tomb: map[string]bool{}, WithAbort: true}
}

type MemWriter struct {
	d         *MemData
	ptr       string
	buf       bytes.Buffer
	closed    bool
	aborted   bool
	Published bool
}

type memWriterAbort struct{ *MemWriter }

func (w memWriterAbort) Abort() error { return w.MemWriter.abort() }

func (d *MemData) CreateFile(ctx context.Context) (io.WriteCloser, []byte, error) {
	if err := d.Hook.enterCtx(ctx, "CreateFile", "", 0); err != nil {
		d.Hook.exit("CreateFile", "", err)
		return nil, nil, err
	}
	d.mu.Lock()
	d.seq++
	ptr := fmt.Sprintf("f%d", d.seq)
	w := &MemWriter{d: d, ptr: ptr}
	d.Writers = append(d.Writers, w)
	d.mu.Unlock()
	d.Hook.exit("CreateFile", ptr, nil)
	if d.WithAbort {
		return memWriterAbort{w}, []byte(ptr), nil
	}
	return w, []byte(ptr), nil
}

func (w *MemWriter) Write(p []byte) (int, error) {
	if err := w.d.Hook.enter("Write", w.ptr, len(p)); err != nil {
		n := 0
		if w.d.ShortWrite {
			n = len(p) / 2
			w.buf.Write(p[:n])
		}
		w.d.Hook.exit("Write", w.ptr, err)
		return n, err
	}
	if w.closed || w.aborted {
		err := errors.New("write on closed writer")
		w.d.Hook.exit("Write", w.ptr, err)
		return 0, err
	}
	w.buf.Write(p)
	w.d.Hook.exit("Write", w.ptr, nil)
	return len(p), nil
}

func (w *MemWriter) Close() error {
	if err := w.d.Hook.enter("Close", w.ptr, 0); err != nil {
		w.closed = true
		w.d.Hook.exit("Close", w.ptr, err)
		return err
	}
	if w.closed || w.aborted {
		w.d.Hook.exit("Close", w.ptr, nil)
		return nil
	}
	w.closed = true
	w.d.mu.Lock()
	w.d.files[w.ptr] = append([]byte(nil), w.buf.Bytes()...)
	w.Published = true
	w.d.mu.Unlock()
	w.d.Hook.exit("Close", w.ptr, nil)
	return nil
}

func (w *MemWriter) abort() error {
	err := w.d.Hook.enter("Abort", w.ptr, 0)
	if !w.Published {
		w.aborted = true
	}
	w.d.Hook.exit("Abort", w.ptr, err)
	return err
}

// MemHandle is a read handle with use accounting.
type MemHandle struct {
	d      *MemData
	ctx    context.Context
	Ptr    string
	data   []byte
	pos    int64
	Closed int
	inUse  bool
	// violations observed on this handle
	ConcurrentUse  bool
	UseAfterClose  bool
}

func (d *MemData) OpenFile(ctx context.Context, ptrBytes []byte) (io.ReadSeekCloser, error) {
	ptr := string(ptrBytes)
	if err := d.Hook.enterCtx(ctx, "OpenFile", ptr, 0); err != nil {
		d.Hook.exit("OpenFile", ptr, err)
		return nil, err
	}
	d.mu.Lock()
	data, ok := d.files[ptr]
	var h *MemHandle
	if ok {
		h = &MemHandle{d: d, ctx: ctx, Ptr: ptr, data: data}
		d.Opens++
		d.Handles = append(d.Handles, h)
	}
	d.mu.Unlock()
	if !ok {
		err := fmt.Errorf("memdata: no such file %q: %w", ptr, fs.ErrNotExist)
		d.Hook.exit("OpenFile", ptr, err)
		return nil, err
	}
	d.Hook.exit("OpenFile", ptr, nil)
	return h, nil
}

func (h *MemHandle) begin() {
	if h.inUse {
		h.ConcurrentUse = true
	}
	if h.Closed > 0 {
		h.UseAfterClose = true
	}
	h.inUse = true
}

func (h *MemHandle) gone() bool {
	if !h.d.ObjectLike {
		return false
	}
	h.d.mu.Lock()
	defer h.d.mu.Unlock()
	return h.d.tomb[h.Ptr]
}

func (h *MemHandle) Read(p []byte) (int, error) {
	h.begin()
	defer func() { h.inUse = false }()
	if err := h.d.Hook.enter("Read", h.Ptr, len(p)); err != nil {
		h.d.Hook.exit("Read", h.Ptr, err)
		return 0, err
	}
	if h.gone() {
		err := fmt.Errorf("memdata: object %q was deleted", h.Ptr)
		h.d.Hook.exit("Read", h.Ptr, err)
		return 0, err
	}
	if h.d.CtxAwareReads && h.ctx != nil {
		if err := h.ctx.Err(); err != nil {
			err = fmt.Errorf("memdata: read aborted: %w", err)
			h.d.Hook.exit("Read", h.Ptr, err)
			return 0, err
		}
	}
	if h.pos >= int64(len(h.data)) {
		h.d.Hook.exit("Read", h.Ptr, io.EOF)
		return 0, io.EOF
	}
	n := copy(p, h.data[h.pos:])
	if h.d.ReadLog != nil {
		h.d.ReadLog(h.Ptr, h.pos, n)
	}
	h.pos += int64(n)
	h.d.Hook.exit("Read", h.Ptr, nil)
	return n, nil
}

func (h *MemHandle) Seek(off int64, whence int) (int64, error) {
	h.begin()
	defer func() { h.inUse = false }()
	if err := h.d.Hook.enter("Seek", h.Ptr, int(off)); err != nil {
		h.d.Hook.exit("Seek", h.Ptr, err)
		return 0, err
	}
	var np int64
	switch whence {
	case io.SeekStart:
		np = off
	case io.SeekCurrent:
		np = h.pos + off
	case io.SeekEnd:
		np = int64(len(h.data)) + off
	}
	if np < 0 {
		err := errors.New("memdata: negative seek")
		h.d.Hook.exit("Seek", h.Ptr, err)
		return 0, err
	}
	h.pos = np
	h.d.Hook.exit("Seek", h.Ptr, nil)
	return np, nil
}

func (h *MemHandle) Close() error {
	err := h.d.Hook.enter("HandleClose", h.Ptr, 0)
	h.d.mu.Lock()
	h.Closed++
	h.d.Closes++
	h.d.mu.Unlock()
	h.d.Hook.exit("HandleClose", h.Ptr, err)
	return err // a hook may make closing a read handle fail (the handle still counts as closed)
}

func (d *MemData) TombstoneFile(ctx context.Context, ptrBytes []byte) error {
	ptr := string(ptrBytes)
	if err := d.Hook.enterCtx(ctx, "TombstoneFile", ptr, 0); err != nil {
		d.Hook.exit("TombstoneFile", ptr, err)
		return err
	}
	d.mu.Lock()
	d.tomb[ptr] = true
	if !d.DeferredGC {
		delete(d.files, ptr)
	}
	d.mu.Unlock()
	d.Hook.exit("TombstoneFile", ptr, nil)
	return nil
}

// Files returns the published, non-tombstoned pointers in order.
func (d *MemData) Files() []string {
	d.mu.Lock()
	defer d.mu.Unlock()
	var out []string
	for p := range d.files {
		out = append(out, p)
	}
	sort.Slice(out, func(i, j int) bool { return lessPtr(out[i], out[j]) })
	return out
}

func lessPtr(a, b string) bool {
	if len(a) != len(b) {
		return len(a) < len(b)
	}
	return a < b
}

// Bytes returns a published file's content.
func (d *MemData) Bytes(ptr string) ([]byte, bool) {
	d.mu.Lock()
	defer d.mu.Unlock()
	b, ok := d.files[ptr]
	return b, ok
}

// Put publishes bytes under a fresh pointer (external writer).
func (d *MemData) Put(data []byte) string {
	d.mu.Lock()
	defer d.mu.Unlock()
	d.seq++
	ptr := fmt.Sprintf("f%d", d.seq)
	d.files[ptr] = data
	return ptr
}

// SetBytes replaces a published file's content (corruption experiments).
func (d *MemData) SetBytes(ptr string, data []byte) {
	d.mu.Lock()
	d.files[ptr] = data
	d.mu.Unlock()
}

func (d *MemData) Tombstoned(ptr string) bool {
	d.mu.Lock()
	defer d.mu.Unlock()
	return d.tomb[ptr]
}

// MemMeta is an ordered, atomic in-memory MetaStore.
type MemMeta struct {
	mu    sync.Mutex
	order []string
	files map[string]bs.FileMetadata
	Hook  *Hook

	IgnorePrefilter bool
	ReverseBlocks   bool
	IterReturned    int
	IterStarted     int
	// IterFailAt, when >= 0, makes the iterator yield an error instead of its n-th file.
	IterErr func(i int) error
}

func NewMemMeta() *MemMeta { return &MemMeta{files: map[string]bs.FileMetadata{}} }

func (m *MemMeta) Update(ctx context.Context, writes []bs.WriteOperation, deletes []bs.DeleteOperation) error {
	if err := m.Hook.enterCtx(ctx, "Update", updateDesc(writes, deletes), len(writes)+len(deletes)); err != nil {
		m.Hook.exit("Update", "", err)
		return err
	}
	m.mu.Lock()
	for _, w := range writes {
		if w.FileMetadata == nil {
			continue
		}
		p := string(w.FilePointerBytes)
		if _, ok := m.files[p]; !ok {
			m.order = append(m.order, p)
		}
		m.files[p] = *w.FileMetadata
	}
	for _, d := range deletes {
		p := string(d.FilePointerBytes)
		if _, ok := m.files[p]; ok {
			delete(m.files, p)
			for i, o := range m.order {
				if o == p {
					m.order = append(m.order[:i], m.order[i+1:]...)
					break
				}
			}
		}
	}
	m.mu.Unlock()
	m.Hook.exit("Update", updateDesc(writes, deletes), nil)
	return nil
}

func updateDesc(writes []bs.WriteOperation, deletes []bs.DeleteOperation) string {
	s := "+"
	for i, w := range writes {
		if i > 0 {
			s += ","
		}
		s += string(w.FilePointerBytes)
	}
	s += " -"
	for i, d := range deletes {
		if i > 0 {
			s += ","
		}
		s += string(d.FilePointerBytes)
	}
	return s
}

func (m *MemMeta) GetMaybeFilesForQuery(ctx context.Context, q *bs.QueryPrefilter) iter.Seq2[bs.MaybeFile, error] {
	return func(yield func(bs.MaybeFile, error) bool) {
		m.mu.Lock()
		m.IterStarted++
		m.mu.Unlock()
		defer func() {
			m.mu.Lock()
			m.IterReturned++
			m.mu.Unlock()
		}()
		if err := m.Hook.enter("Iter", "", 0); err != nil {
			m.Hook.exit("Iter", "", err)
			yield(bs.MaybeFile{}, err)
			return
		}
		m.mu.Lock()
		snap := make([]bs.MaybeFile, 0, len(m.order))
		for _, p := range m.order {
			md := m.files[p]
			blocks := append([]bs.DataBlockMetadata(nil), md.DataBlocks...)
			if !m.IgnorePrefilter {
				blocks = bs.FilterDataBlocks(blocks, q)
				if q != nil && len(blocks) == 0 {
					continue
				}
			}
			if m.ReverseBlocks {
				for i, j := 0, len(blocks)-1; i < j; i, j = i+1, j-1 {
					blocks[i], blocks[j] = blocks[j], blocks[i]
				}
			}
			md.DataBlocks = blocks
			snap = append(snap, bs.MaybeFile{PointerBytes: []byte(p), Metadata: md})
		}
		m.mu.Unlock()
		m.Hook.exit("Iter", "", nil)
		for i, f := range snap {
			if m.IterErr != nil {
				if err := m.IterErr(i); err != nil {
					yield(bs.MaybeFile{}, err)
					return
				}
			}
			if err := m.Hook.enter("IterYield", string(f.PointerBytes), i); err != nil {
				m.Hook.exit("IterYield", string(f.PointerBytes), err)
				yield(bs.MaybeFile{}, err)
				return
			}
			if !yield(f, nil) {
				return
			}
		}
	}
}

// Pointers returns the referenced pointers in insertion order.
func (m *MemMeta) Pointers() []string {
	m.mu.Lock()
	defer m.mu.Unlock()
	return append([]string(nil), m.order...)
}

// Metadata returns a referenced file's metadata.
func (m *MemMeta) Metadata(ptr string) (bs.FileMetadata, bool) {
	m.mu.Lock()
	defer m.mu.Unlock()
	md, ok := m.files[ptr]
	return md, ok
}

// ---- harness observation without synchronisation -------------------------------------
// Under the controlled scheduler exactly one task runs at a time, so oracles may read the
// stores without taking their (scheduler-visible) mutexes and thereby without adding
// scheduling points. The free-running build must use the locked accessors instead.

// PointersNoLock is Pointers without locking.
func (m *MemMeta) PointersNoLock() []string { return append([]string(nil), m.order...) }

// MetadataNoLock is Metadata without locking.
func (m *MemMeta) MetadataNoLock(ptr string) (bs.FileMetadata, bool) {
	md, ok := m.files[ptr]
	return md, ok
}

// BytesNoLock is Bytes without locking.
func (d *MemData) BytesNoLock(ptr string) ([]byte, bool) {
	b, ok := d.files[ptr]
	return b, ok
}

// Preload publishes data under ptr and registers md (fixture setup; no hooks).
func Preload(d *MemData, m *MemMeta, ptr string, data []byte, md bs.FileMetadata) {
	d.files[ptr] = data
	if _, ok := m.files[ptr]; !ok {
		m.order = append(m.order, ptr)
	}
	m.files[ptr] = md
	if n := len(ptr); n > 1 {
		var k int
		fmt.Sscanf(ptr[1:], "%d", &k)
		if k > d.seq {
			d.seq = k
		}
	}
}

module verif

go 1.26.0

require (
	github.com/danthegoodman1/bloomsearch v0.0.0
	github.com/anishathalye/porcupine v1.3.0
)

replace github.com/danthegoodman1/bloomsearch => /repo

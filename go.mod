module verif

go 1.26.0

require (
	github.com/anishathalye/porcupine v1.3.0
	github.com/bits-and-blooms/bloom/v3 v3.7.0
	github.com/danthegoodman1/bloomsearch v0.0.0
	github.com/klauspost/compress v1.18.0
	golang.org/x/tools v0.29.0
)

require (
	github.com/bits-and-blooms/bitset v1.10.0 // indirect
	github.com/tidwall/gjson v1.18.0 // indirect
	github.com/tidwall/match v1.1.1 // indirect
	github.com/tidwall/pretty v1.2.0 // indirect
)

replace github.com/danthegoodman1/bloomsearch => /repo

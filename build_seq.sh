#!/bin/bash
# usage: build_seq.sh SCRATCH -> builds $SCRATCH/hseq: the plain harness over /repo's
# working tree; the only overlay changes are the logging os import of
# file_system_store.go and the verif-tagged file-name-draw hook.
set -e
S=$1
export GOTOOLCHAIN=local GOFLAGS=-mod=mod GOPROXY=off GOSUMDB=off PATH=/opt/veriftools/go1.26.8/bin:$PATH
V=$(cd "$(dirname "$0")" && pwd)
cd $V
mkdir -p $S
go build -o $S/instr ./instr
$S/instr -osonly file_system_store.go -add $V/hooks/zz_verif_hooks.go -out $S/seqinst -overlay $S/seq-overlay.json ${VERIF_REPO:-/repo}=github.com/danthegoodman1/bloomsearch=/repo
go build -overlay $S/seq-overlay.json -tags verif -o $S/hseq ./cmd/hseq
